//! C20 — extreme integer arguments end in a result or an error, never a crash (arithmetic clause).
//! The stack-exhaustion clause (nesting 10^5) is outside this technique: CBMC has no stack model.
use super::bdoc::*;
use super::common::*;
use crate::functions::*;
use crate::jsonpath::{ArrayIndex, Index, JsonPath, Mode, Path, Selector};
use crate::keypath::KeyPath;

macro_rules! harness {
    ($name:ident, $body:expr) => {
        #[kani::proof]
        #[kani::unwind(3)]
        #[kani::stub(crate::parser::parse_value, no_parse_value)]
        #[kani::stub(crate::de::from_slice, no_from_slice)]
        #[kani::stub(std::ptr::drop_in_place, noop_drop)]
        fn $name() {
            $body
        }
    };
}

fn docs(k: usize, f: impl Fn(&B)) {
    match k {
        0 => f(&B::build(&arr(&[leaf(K_NULL, 0)]))),
        1 => f(&B::build(&arr(&[]))),
        2 => f(&B::build(&leaf(K_TRUE, 0))),
        3 => f(&B::build(&obj(&[], &[]))),
        _ => f(&B::build(&arr(&[arr(&[leaf(K_NULL, 0)])]))),
    }
}

//@ props: C20
//@ timeout: 900
//@ harness: c20_delete_by_index, c20_array_insert
//@ desc: delete_by_index (on [], a scalar and {}) and array_insert (on []) with index/position arguments over the ENTIRE i32 range (including i32::MIN and i32::MAX) (documents on which a fully symbolic index leaves the output size concrete or nearly so): no arithmetic overflow (Kani checks every +,-,*,abs,neg with overflow checks on, i.e. dev-profile semantics), no panic; a result or an error comes back
//@ fns: delete_by_index, delete_jsonb_by_index, array_insert, array_insert_jsonb
//@ bounds: documents of <= 1 element (the arithmetic under test happens before any element is touched); index arguments unbounded
//@ stubs: parse_value, from_slice -> panic | drop_in_place -> no-op
//@ outside: stack exhaustion on deep nesting (no stack model in CBMC) | arithmetic inside the JSON-text branches
harness!(c20_delete_by_index, split1(3, |k| docs(1 + k, |d| {
    let i: i32 = kani::any();
    let mut buf = Vec::new();
    let r = delete_by_index(d.bytes(), i, &mut buf);
    kani::cover!(i == i32::MIN && r.is_ok(), "i32::MIN handled");
    core::mem::forget(buf);
})));
harness!(c20_array_insert, split1(1, |k| docs(1 + k, |d| {
    let i: i32 = kani::any();
    let new = B::build(&leaf(K_TRUE, 0));
    let mut buf = Vec::new();
    let r = array_insert(d.bytes(), i, new.bytes(), &mut buf);
    assert!(r.is_ok(), "array_insert clamps every position");
    kani::cover!(i == i32::MIN, "i32::MIN handled");
    kani::cover!(i == i32::MAX, "i32::MAX handled");
    core::mem::forget(buf);
})));


fn select_with(d: &B, ai: ArrayIndex) {
    let jp = JsonPath { paths: vec![Path::Root, Path::ArrayIndices(vec![ai])] };
    let sel = Selector::new(jp, Mode::All);
    let mut data = Vec::new();
    let mut offs = Vec::new();
    let r = sel.select(d.bytes(), &mut data, &mut offs);
    assert!(r.is_ok(), "index selection on a valid document is Ok");
    core::mem::forget(data);
    core::mem::forget(offs);
    core::mem::forget(sel);
}
fn any_index() -> Index {
    if kani::any() { Index::Index(kani::any()) } else { Index::LastIndex(kani::any()) }
}
//@ props: UNREACHED-C20
//@ timeout: 900
//@ harness: c20_path_index, c20_path_slice
//@ desc: JSONPath index forms with every i32 offset: $[i], $[last+k] (k any sign), $[a to b] with both bounds of either form, evaluated on [null], [], [[null]]: no overflow in convert_index/convert_slice, no panic, Ok result
//@ fns: Selector::select, Selector::select_by_indices, Selector::convert_index, Selector::convert_slice
//@ bounds: arrays of <= 1 element; offsets unbounded
//@ stubs: parse_value, from_slice -> panic | drop_in_place -> no-op
harness!(c20_path_index, split1(3, |k| docs(k, |d| select_with(d, ArrayIndex::Index(any_index())))));
harness!(c20_path_slice, split1(3, |k| docs(k, |d| select_with(d, ArrayIndex::Slice((any_index(), any_index()))))));

//@ props: C20
//@ timeout: 300
//@ expect: twin
//@ desc: vacuity twin: delete_by_index claimed to always fail — must be refuted
//@ fns: delete_by_index
#[kani::proof]
#[kani::unwind(3)]
#[kani::stub(crate::parser::parse_value, no_parse_value)]
#[kani::stub(crate::de::from_slice, no_from_slice)]
#[kani::stub(std::ptr::drop_in_place, noop_drop)]
fn c20_twin_must_fail() {
    let d = B::build(&arr(&[]));
    let i: i32 = kani::any();
    let mut buf = Vec::new();
    let r = delete_by_index(d.bytes(), i, &mut buf);
    let bad = r.is_err();
    core::mem::forget(buf);
    assert!(bad, "TWIN: deliberately false");
}

//@ props: UNREACHED-C20
//@ timeout: 900
//@ harness: c20_keypath
//@ desc: get_by_keypath / delete_by_keypath with two fully symbolic i32 indices: no result in 15 min
//@ fns: get_by_keypath, delete_by_keypath
harness!(c20_keypath, split1(1, |k| docs(1 + k, |d| {
    let (i, j): (i32, i32) = (kani::any(), kani::any());
    let (p, q) = (KeyPath::Index(i), KeyPath::Index(j));
    let path = [&p, &q];
    let g = get_by_keypath(d.bytes(), path.iter().copied());
    let mut buf = Vec::new();
    let r = delete_by_keypath(d.bytes(), path.iter().copied(), &mut buf);
    kani::cover!(i == i32::MIN && j == i32::MAX, "extremes handled");
    core::mem::forget(g);
    core::mem::forget(r);
    core::mem::forget(buf);
})));
