//! Infrastructure guard shared by all byte-level properties: every scalar class and key-length
//! pattern used by the document builder is inhabited (the validity assumptions are satisfiable), so
//! no case-split arm is vacuous.
use super::bdoc::*;
use super::common::*;

macro_rules! inhabited {
    ($($i:expr),*) => { $( { let d = B::build(&lf(CLS[$i])); kani::cover!(d.n >= 8, "scalar class is inhabited"); } )* };
}
macro_rules! keys_inhabited {
    ($(($a:expr, $b:expr)),*) => { $( { let d = B::build(&obj(&[$a, $b], &[leaf(K_NULL, 0), leaf(K_NULL, 0)])); kani::cover!(d.n > 0, "two sorted keys of these lengths exist"); } )* };
}

//@ props: C01, C04, C05, C06, C07, C10, C12, C14, C17, C19, C20
//@ timeout: 600
//@ desc: generator guard: each of the 11 scalar classes (null, true, false, numbers of encoded width 1/2/3/5/9, strings of 0/1/2 bytes) and each key-length pattern (0,1) (1,1) (1,2) (2,1) (2,2) admits a document under the validity assumptions (shortest number encodings, UTF-8, strictly increasing keys), so no case-split arm of any byte-level harness is vacuous; strings of 3 and 4 bytes likewise
//@ fns: (harness-side document builder)
//@ bounds: n/a
#[kani::proof]
#[kani::unwind(5)]
fn c00_generator_inhabited() {
    inhabited!(0, 1, 2, 3, 4, 5, 6, 7, 8, 9, 10);
    keys_inhabited!((0, 1), (1, 1), (1, 2), (2, 1), (2, 2));
    let d = B::build(&leaf(K_STR, 3));
    kani::cover!(d.b[8] >= 0xE0, "a 3-byte character");
    let d = B::build(&leaf(K_STR, 4));
    kani::cover!(d.b[8] >= 0xF0, "a 4-byte character");
}
