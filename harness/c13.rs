//! C13 — array set functions implement multiset semantics over identical elements.
use super::bdoc::*;
use super::c06::{expect_ok, kids_blobs};
use super::common::*;
use crate::functions::*;

macro_rules! harness {
    ($name:ident, $body:expr) => {
        #[kani::proof]
        #[kani::unwind(1)]
        #[kani::stub(crate::parser::parse_value, no_parse_value)]
        #[kani::stub(crate::de::from_slice, no_from_slice)]
        #[kani::stub(std::ptr::drop_in_place, noop_drop)]
        #[kani::stub(crate::builder::ObjectBuilder::build_into, no_object_builder)]
        fn $name() {
            $body
        }
    };
}

macro_rules! harness_obj {
    ($name:ident, $body:expr) => {
        #[kani::proof]
        #[kani::unwind(1)]
        #[kani::stub(crate::parser::parse_value, no_parse_value)]
        #[kani::stub(crate::de::from_slice, no_from_slice)]
        #[kani::stub(std::ptr::drop_in_place, noop_drop)]
        fn $name() {
            $body
        }
    };
}

/// the input as the list of its elements; a non-array counts as a one-element list
fn elems(d: &B) -> ([usize; MAXW], usize) {
    let r = d.node(d.root);
    if r.kind == K_ARR {
        (r.kids, r.cnt)
    } else {
        ([d.root; MAXW], 1)
    }
}

fn expect_kept(r: Result<(), crate::error::Error>, buf: &Vec<u8>, a: &B, ids: &[usize; MAXW], n: usize, keep: &[bool; MAXW]) {
    let mut pat = 0usize;
    let mut i = 0;
    while i < n {
        if keep[i] {
            pat |= 1 << i;
        }
        i += 1;
    }
    // case split over the keep pattern so that every expected layout is concrete
    let mut q = 0usize;
    while q < (1 << n) {
        if pat == q {
            let mut out = [a.blob(ids[0]); MAXW];
            let mut m = 0;
            let mut i = 0;
            while i < n {
                if q & (1 << i) != 0 {
                    out[m] = a.blob(ids[i]);
                    m += 1;
                }
                i += 1;
            }
            expect_ok(r.clone(), buf, &x_arr(&out[..m]));
        }
        q += 1;
    }
}

fn distinct(d: &B) {
    let (ids, n) = elems(d);
    let mut keep = [false; MAXW];
    let mut i = 0;
    while i < n {
        let mut seen = false;
        let mut j = 0;
        while j < i {
            if ref_identical(d, ids[j], d, ids[i]) {
                seen = true;
            }
            j += 1;
        }
        keep[i] = !seen;
        i += 1;
    }
    let mut buf = Vec::new();
    let r = array_distinct(d.bytes(), &mut buf);
    expect_kept(r, &buf, d, &ids, n, &keep);
    // idempotent: distinct of the result is the result
    let mut buf2 = Vec::new();
    let r2 = array_distinct(&buf, &mut buf2);
    assert!(r2.is_ok() && buf2.len() == buf.len(), "distinct is idempotent");
    let mut k = 0;
    while k < XCAP {
        if k < buf.len() {
            assert!(buf2[k] == buf[k], "distinct is idempotent");
        }
        k += 1;
    }
    kani::cover!(n >= 2 && !keep[1], "a duplicate removed");
    kani::cover!(n >= 2 && keep[1], "distinct elements kept");
    core::mem::forget(buf);
    core::mem::forget(buf2);
}

fn inter_except(a: &B, b: &B) {
    let (ia, na) = elems(a);
    let (ib, nb) = elems(b);
    // multiset: element i of a is in the intersection when fewer earlier identical elements of a were
    // taken than there are identical elements in b
    let mut keep = [false; MAXW];
    let mut i = 0;
    while i < na {
        let mut in_b = 0;
        let mut j = 0;
        while j < nb {
            if ref_identical(a, ia[i], b, ib[j]) {
                in_b += 1;
            }
            j += 1;
        }
        let mut used = 0;
        let mut k = 0;
        while k < i {
            if keep[k] && ref_identical(a, ia[k], a, ia[i]) {
                used += 1;
            }
            k += 1;
        }
        keep[i] = used < in_b;
        i += 1;
    }
    let mut rest = [false; MAXW];
    let mut any = false;
    let mut i = 0;
    while i < na {
        rest[i] = !keep[i];
        if keep[i] {
            any = true;
        }
        i += 1;
    }
    let mut b1 = Vec::new();
    let r1 = array_intersection(a.bytes(), b.bytes(), &mut b1);
    expect_kept(r1, &b1, a, &ia, na, &keep);
    let mut b2 = Vec::new();
    let r2 = array_except(a.bytes(), b.bytes(), &mut b2);
    expect_kept(r2, &b2, a, &ia, na, &rest);
    assert!(array_overlap(a.bytes(), b.bytes()) == Ok(any), "overlap is true exactly when the intersection is non-empty");
    kani::cover!(any, "non-empty intersection");
    kani::cover!(!any, "empty intersection");
    core::mem::forget(b1);
    core::mem::forget(b2);
}

fn ddoc(k: usize, f: impl Fn(&B)) {
    let n = leaf(K_NUM, 2);
    match k {
        0 => f(&B::build(&arr(&[n, n, n]))),
        1 => f(&B::build(&arr(&[n, leaf(K_STR, 2), n]))),
        2 => f(&B::build(&arr(&[arr(&[n]), arr(&[n]), n]))),
        3 => f(&B::build(&arr(&[leaf(K_NUM, 9), n, leaf(K_STR, 0), leaf(K_NULL, 0)]))),
        4 => f(&B::build(&n)),
        5 => f(&B::build(&obj(&[1], &[n]))),
        6 => f(&B::build(&arr(&[]))),
        _ => f(&B::build(&arr(&[obj(&[1], &[n]), obj(&[1], &[n])]))),
    }
}
//@ props: UNREACHED-C13
//@ tier: thorough
//@ timeout: 7200
//@ harness: c13_distinct_a, c13_distinct_b
//@ desc: array_distinct on [n,n,n], [n,s2,n] (a string whose bytes can equal a number payload), [[n],[n],n], [n9,n,"",null], scalar n, {k:n}, [], [{k:n},{k':n'}]: the first occurrence of each element (same value in the same number encoding) is kept in order; a non-array is a one-element list; idempotent; canonical array output
//@ fns: array_distinct, array_distinct_jsonb, ArrayBuilder::build_into, iterate_array
//@ bounds: <= 4 elements
//@ stubs: parse_value, from_slice -> panic | drop_in_place -> no-op
harness!(c13_distinct_a, split1(4, |k| ddoc(k, |d| distinct(d))));
harness!(c13_distinct_b, split1(4, |k| ddoc(4 + k, |d| distinct(d))));

fn pdoc(k: usize, f: impl Fn(&B, &B)) {
    let n = leaf(K_NUM, 2);
    let s = leaf(K_STR, 1);
    let e = obj(&[], &[]);
    match k {
        0 => f(&B::build(&arr(&[n, n, n])), &B::build(&arr(&[n, n]))),
        1 => f(&B::build(&arr(&[n, s])), &B::build(&arr(&[s, n, n]))),
        2 => f(&B::build(&arr(&[arr(&[n]), n])), &B::build(&arr(&[arr(&[n])]))),
        3 => f(&B::build(&n), &B::build(&arr(&[n, n]))),
        4 => f(&B::build(&arr(&[n, leaf(K_NUM, 9)])), &B::build(&n)),
        5 => f(&B::build(&obj(&[1], &[n])), &B::build(&obj(&[1], &[n]))),
        6 => f(&B::build(&arr(&[e, n])), &B::build(&e)),
        7 => f(&B::build(&arr(&[n, n])), &B::build(&arr(&[]))),
        8 => f(&B::build(&arr(&[])), &B::build(&arr(&[n]))),
        _ => f(&B::build(&arr(&[obj(&[1], &[n]), n])), &B::build(&arr(&[n, obj(&[1], &[n])]))),
    }
}
//@ props: UNREACHED-C13
//@ tier: thorough
//@ timeout: 7200
//@ harness: c13_sets_0, c13_sets_1, c13_sets_2, c13_sets_3, c13_sets_4
//@ desc: array_intersection, array_except and array_overlap on ten input pairs ([n,n,n]/[n,n]; [n,s]/[s,n,n]; [[n],n]/[[n]]; n/[n,n]; [n,n9]/n; {k:n}/{k:n}; [{},n]/{}; [n,n]/[]; []/[n]; [{k:n},n]/[n,{k:n}]) with symbolic payloads so that equal and unequal elements arise from the solver: intersection keeps, in order, each element of the first list as many times as it also occurs in the second, except keeps the rest (the two partition the first list), overlap is true exactly when the intersection is non-empty; canonical array outputs
//@ fns: array_intersection, array_intersection_jsonb, array_except, array_except_jsonb, array_overlap, array_overlap_jsonb, ArrayBuilder::build_into
//@ bounds: <= 3 elements per side
//@ stubs: parse_value, from_slice -> panic | drop_in_place -> no-op
harness!(c13_sets_0, split1(2, |k| pdoc(k, |a, b| inter_except(a, b))));
harness!(c13_sets_1, split1(2, |k| pdoc(2 + k, |a, b| inter_except(a, b))));
harness!(c13_sets_2, split1(2, |k| pdoc(4 + k, |a, b| inter_except(a, b))));
harness!(c13_sets_3, split1(2, |k| pdoc(6 + k, |a, b| inter_except(a, b))));
harness!(c13_sets_4, split1(2, |k| pdoc(8 + k, |a, b| inter_except(a, b))));


// ---- quick tier: two-element inputs, one shape per harness
fn qd(k: usize, f: impl Fn(&B)) {
    let n = leaf(K_NUM, 2);
    match k {
        0 => f(&B::build(&arr(&[n, n]))),
        1 => f(&B::build(&arr(&[n, leaf(K_STR, 2)]))),
        2 => f(&B::build(&arr(&[arr(&[n]), arr(&[n])]))),
        _ => f(&B::build(&n)),
    }
}
fn qp(k: usize, f: impl Fn(&B, &B)) {
    let n = leaf(K_NUM, 2);
    let e = obj(&[], &[]);
    match k {
        0 => f(&B::build(&arr(&[n, n])), &B::build(&arr(&[n]))),
        1 => f(&B::build(&arr(&[n, leaf(K_STR, 1)])), &B::build(&arr(&[leaf(K_STR, 1)]))),
        2 => f(&B::build(&arr(&[e, n])), &B::build(&e)),
        3 => f(&B::build(&n), &B::build(&arr(&[n, n]))),
        _ => f(&B::build(&obj(&[1], &[n])), &B::build(&obj(&[1], &[n]))),
    }
}
//@ props: UNREACHED-C13
//@ timeout: 1800
//@ harness: c13q_distinct_0, c13q_distinct_1, c13q_distinct_2, c13q_distinct_3, c13q_sets_0, c13q_sets_1, c13q_sets_2, c13q_sets_3, c13q_sets_4
//@ desc: quick tier (two-element inputs, one shape per harness, symbolic payloads): array_distinct on [n,n'], [n,s2] (a 2-byte string whose bytes can equal the number payload), [[n],[n']] and scalar n; array_intersection / array_except / array_overlap on [n,n']/[n''], [n,s]/[s'], [{},n]/{} (an empty object as second argument), n/[n',n''], {k:n}/{k':n'}: first occurrences kept in order; multiset intersection, its complement, overlap <=> non-empty intersection; canonical outputs; distinct idempotent
//@ fns: array_distinct, array_distinct_jsonb, array_intersection, array_intersection_jsonb, array_except, array_except_jsonb, array_overlap, array_overlap_jsonb, ArrayBuilder::build_into, iterate_array
//@ bounds: <= 2 elements per side
//@ stubs: parse_value, from_slice -> panic | drop_in_place -> no-op
harness!(c13q_distinct_0, qd(0, |d| distinct(d)));
harness!(c13q_distinct_1, qd(1, |d| distinct(d)));
harness!(c13q_distinct_2, qd(2, |d| distinct(d)));
harness!(c13q_distinct_3, qd(3, |d| distinct(d)));
harness!(c13q_sets_0, qp(0, |a, b| inter_except(a, b)));
harness!(c13q_sets_1, qp(1, |a, b| inter_except(a, b)));
harness!(c13q_sets_2, qp(2, |a, b| inter_except(a, b)));
harness!(c13q_sets_3, qp(3, |a, b| inter_except(a, b)));
harness!(c13q_sets_4, qp(4, |a, b| inter_except(a, b)));

//@ props: UNREACHED-C13
//@ timeout: 300
//@ expect: twin
//@ desc: vacuity twin: two arbitrary numbers claimed never to overlap — must be refuted
//@ fns: array_overlap
#[kani::proof]
#[kani::unwind(1)]
#[kani::stub(crate::parser::parse_value, no_parse_value)]
#[kani::stub(crate::de::from_slice, no_from_slice)]
#[kani::stub(std::ptr::drop_in_place, noop_drop)]
fn c13_twin_must_fail() {
    let (a, b) = (B::build(&arr(&[leaf(K_NUM, 2)])), B::build(&leaf(K_NUM, 2)));
    assert!(array_overlap(a.bytes(), b.bytes()) == Ok(false), "TWIN: deliberately false");
}
