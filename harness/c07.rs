//! C07 — any chain of operations keeps documents canonical and equal to the tree result.
//! Inductive argument (DESIGN §3 C07): every single-operation harness of C05/C06/C08/C13 (tagged C07
//! where it produces documents) starts from an ARBITRARY canonical document of its shape class — not
//! from encoder output — and asserts that the output is byte-identical to the README encoding of the
//! tree result, i.e. canonical again. By induction every finite chain whose intermediate documents stay
//! inside the bounds stays canonical and equal to the tree chain. The harnesses below compose two and
//! three real operations, each fed with the real output of the previous one, to confirm that the
//! invariant carries across operations whose output shape class differs from their input class.
use super::bdoc::*;
use super::c06::{expect_ok, kids_blobs};
use super::common::*;
use crate::de::parse_jsonb;
use crate::functions::*;
use crate::jsonpath::*;

macro_rules! harness {
    ($name:ident, $body:expr) => {
        #[kani::proof]
        #[kani::unwind(1)]
        #[kani::stub(crate::parser::parse_value, no_parse_value)]
        #[kani::stub(crate::de::from_slice, no_from_slice)]
        #[kani::stub(std::ptr::drop_in_place, noop_drop)]
        #[kani::stub(crate::builder::ObjectBuilder::build_into, no_object_builder)]
        #[kani::stub(core::str::from_utf8, from_utf8_model)]
        fn $name() {
            $body
        }
    };
}

macro_rules! harness_obj {
    ($name:ident, $body:expr) => {
        #[kani::proof]
        #[kani::unwind(1)]
        #[kani::stub(crate::parser::parse_value, no_parse_value)]
        #[kani::stub(crate::de::from_slice, no_from_slice)]
        #[kani::stub(std::ptr::drop_in_place, noop_drop)]
        #[kani::stub(core::str::from_utf8, from_utf8_model)]
        fn $name() {
            $body
        }
    };
}

/// canonical: decodes, and re-encoding the decoded value reproduces the identical bytes
fn canonical(doc: &Vec<u8>) {
    let v = parse_jsonb(doc);
    assert!(v.is_ok(), "every intermediate result decodes");
    let v = v.unwrap();
    let re = v.to_vec();
    assert!(re.len() == doc.len(), "every intermediate result re-encodes to the identical bytes");
    let mut i = 0;
    while i < XCAP {
        if i < doc.len() {
            assert!(re[i] == doc[i], "every intermediate result re-encodes to the identical bytes");
        }
        i += 1;
    }
    core::mem::forget((v, re));
}

//@ props: UNREACHED-C07
//@ timeout: 1800
//@ harness: c07_concat_delete_get
//@ desc: chain concat([n], n') -> delete_by_index(result, i in -1..=2) -> get_by_index(result, 0): each intermediate result is the README encoding of the tree result, decodes and re-encodes to itself, and the final extraction is the canonical element
//@ fns: concat, delete_by_index, get_by_index, parse_jsonb, Value::to_vec
//@ bounds: 2 elements
//@ stubs: parse_value, from_slice -> panic | drop_in_place -> no-op
harness!(c07_concat_delete_get, {
    let a = B::build(&arr(&[leaf(K_NUM, 2)]));
    let b = B::build(&leaf(K_NUM, 9));
    let mut r1 = Vec::new();
    let c = concat(a.bytes(), b.bytes(), &mut r1);
    let (ea, _) = kids_blobs(&a, a.root);
    let items = [ea[0], b.root_blob()];
    let n = 2;
    expect_ok(c, &r1, &x_arr(&items[..n]));
    canonical(&r1);
    let i: i32 = kani::any();
    kani::assume(i >= -1 && i <= 2);
    let mut v = -1;
    while v <= 2 {
        if i == v {
            let mut r2 = Vec::new();
            let d = delete_by_index(&r1, v, &mut r2);
            let p = if v < 0 { n as i32 + v } else { v };
            let mut out = items;
            let mut m = n;
            if p >= 0 && (p as usize) < n {
                let mut j = p as usize;
                while j + 1 < n {
                    out[j] = items[j + 1];
                    j += 1;
                }
                m = n - 1;
            }
            expect_ok(d, &r2, &x_arr(&out[..m]));
            let g = get_by_index(&r2, 0);
            let e = x_doc(&out[0]);
            assert!(g.is_some(), "the produced document still has a first element");
            let gv = g.unwrap();
            assert!(same_blob(&gv, &e), "extraction from a produced document is the canonical element");
            core::mem::forget((r2, gv));
        }
        v += 1;
    }
    core::mem::forget(r1);
});

//@ props: UNREACHED-C07
//@ timeout: 1800
//@ harness: c07_build_insert_strip
//@ desc: chain build_object([(k1, x), (k2, null)]) -> object_insert(result, k, [null], update) -> strip_nulls(result): the built object, the object after insertion (every position/duplicate pattern of the symbolic key) and the stripped object are each the README encoding of the tree result and re-encode to themselves
//@ fns: build_object, object_insert, strip_nulls, parse_jsonb, Value::to_vec
//@ bounds: <= 3 members
//@ stubs: parse_value, from_slice -> panic | drop_in_place -> no-op
harness!(c07_build_insert_strip, {
    let x = B::build(&leaf(K_NUM, 2));
    let nul = B::build(&leaf(K_NULL, 0));
    let (k1, k2) = (Name::of_len(1), Name::of_len(2));
    kani::assume(k1.b[0] <= k2.b[0]);
    let items: [(&str, &[u8]); 2] = [(k1.as_str(), x.bytes()), (k2.as_str(), nul.bytes())];
    let mut r1 = Vec::new();
    let b = build_object(items.iter().copied(), &mut r1);
    let (kb1, kb2) = (KeyB::of(&k1), KeyB::of(&k2));
    expect_ok(b, &r1, &x_obj(&[kb1, kb2], &[x.root_blob(), nul.root_blob()]));
    canonical(&r1);
    let nk = Name::of_len(1);
    let nv = B::build(&arr(&[leaf(K_NULL, 0)]));
    let mut r2 = Vec::new();
    let ins = object_insert(&r1, nk.as_str(), nv.bytes(), true, &mut r2);
    let kn = KeyB::of(&nk);
    let c1 = kn.cmp(&kb1);
    // patterns: before k1, equal to k1 (replaced), between k1 and k2 (a 1-byte key never equals the 2-byte k2), after k2
    let c2 = kn.cmp(&kb2);
    let pat = if c1 == core::cmp::Ordering::Less { 0 } else if c1 == core::cmp::Ordering::Equal { 1 } else if c2 == core::cmp::Ordering::Less { 2 } else { 3 };
    let mut q = 0;
    while q < 4 {
        if pat == q {
            let (e2, e3) = match q {
                0 => (x_obj(&[kn, kb1, kb2], &[nv.root_blob(), x.root_blob(), nul.root_blob()]), x_obj(&[kn, kb1], &[nv.root_blob(), x.root_blob()])),
                1 => (x_obj(&[kn, kb2], &[nv.root_blob(), nul.root_blob()]), x_obj(&[kn], &[nv.root_blob()])),
                2 => (x_obj(&[kb1, kn, kb2], &[x.root_blob(), nv.root_blob(), nul.root_blob()]), x_obj(&[kb1, kn], &[x.root_blob(), nv.root_blob()])),
                _ => (x_obj(&[kb1, kb2, kn], &[x.root_blob(), nul.root_blob(), nv.root_blob()]), x_obj(&[kb1, kn], &[x.root_blob(), nv.root_blob()])),
            };
            expect_ok(ins.clone(), &r2, &e2);
            canonical(&r2);
            let mut r3 = Vec::new();
            let s = strip_nulls(&r2, &mut r3);
            expect_ok(s, &r3, &e3);
            canonical(&r3);
            core::mem::forget(r3);
        }
        q += 1;
    }
    kani::cover!(pat == 1, "existing key updated");
    kani::cover!(pat == 2, "inserted between");
    core::mem::forget((r1, r2));
});

//@ props: UNREACHED-C07
//@ timeout: 1800
//@ harness: c07_select_build_distinct
//@ desc: chain get_by_path(`$[*]`, all items of [n,n',s]) -> build_array(items) -> array_distinct(result): the selected items, split at the reported offsets, are canonical documents; the array rebuilt from them is byte-identical to the source array; distinct of it is the README encoding of the first occurrences
//@ fns: Selector::select, build_array, array_distinct, parse_jsonb, Value::to_vec
//@ bounds: 3 elements
//@ stubs: parse_value, from_slice -> panic | drop_in_place -> no-op
harness!(c07_select_build_distinct, {
    let d = B::build(&arr(&[leaf(K_NUM, 2), leaf(K_NUM, 2), leaf(K_STR, 1)]));
    let sel = Selector::new(JsonPath { paths: vec![Path::Root, Path::BracketWildcard] }, Mode::All);
    let (mut data, mut offs) = (Vec::new(), Vec::new());
    assert!(sel.select(d.bytes(), &mut data, &mut offs).is_ok() && offs.len() == 3);
    let (o0, o1, o2) = (offs[0] as usize, offs[1] as usize, offs[2] as usize);
    let parts: [&[u8]; 3] = [&data[..o0], &data[o0..o1], &data[o1..o2]];
    let mut r1 = Vec::new();
    let b = build_array(parts.iter().copied(), &mut r1);
    expect_ok(b, &r1, &d.root_blob());
    canonical(&r1);
    let mut r2 = Vec::new();
    let ds = array_distinct(&r1, &mut r2);
    let root = d.node(d.root);
    let dup = ref_identical(&d, root.kids[0], &d, root.kids[1]);
    let (e0, e1, e2) = (d.blob(root.kids[0]), d.blob(root.kids[1]), d.blob(root.kids[2]));
    if dup {
        expect_ok(ds, &r2, &x_arr(&[e0, e2]));
    } else {
        expect_ok(ds, &r2, &x_arr(&[e0, e1, e2]));
    }
    canonical(&r2);
    kani::cover!(dup, "duplicate removed");
    core::mem::forget((sel, data, offs, r1, r2));
});
