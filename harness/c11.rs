//! C11 — functions give the same answer for JSON text as for its JSONB encoding.
//! The same abstract document is given once as JSONB bytes (README layout, symbolic payloads) and
//! once as JSON text rendered by the harness; every function must agree on the two.
use super::bdoc::*;
use super::common::*;
use crate::functions::*;
use crate::jsonpath::*;
use crate::keypath::KeyPath;
use crate::number::Number;
use std::borrow::Cow;
use std::collections::BTreeSet;

macro_rules! harness {
    ($name:ident, $body:expr) => {
        #[kani::proof]
        #[kani::unwind(5)]
        #[kani::stub(std::ptr::drop_in_place, noop_drop)]
        fn $name() {
            $body
        }
    };
}

pub struct T {
    pub b: [u8; 64],
    pub n: usize,
}
impl T {
    pub fn bytes(&self) -> &[u8] {
        &self.b[..self.n]
    }
    fn put(&mut self, c: u8) {
        self.b[self.n] = c;
        self.n += 1;
    }
}
fn plain(c: u8) -> bool {
    c >= 0x23 && c < 0x7f && c != b'\\'
}
/// restrict the document to leaves with a fixed-length text form and render it as JSON text:
/// numbers of width 2 are two-digit integers (unsigned 10..=99 or negative -99..=-10 as the tag says),
/// strings and keys are plain ASCII characters
fn render(d: &B, id: usize, t: &mut T) {
    let x = d.node(id);
    match x.kind {
        K_NULL => { t.put(b'n'); t.put(b'u'); t.put(b'l'); t.put(b'l'); }
        K_TRUE => { t.put(b't'); t.put(b'r'); t.put(b'u'); t.put(b'e'); }
        K_FALSE => { t.put(b'f'); t.put(b'a'); t.put(b'l'); t.put(b's'); t.put(b'e'); }
        K_NUM => {
            // width 2 only
            let tag = d.b[x.off];
            let v = d.b[x.off + 1];
            kani::assume(tag == 0x50);
            kani::assume(v >= 10 && v <= 99);
            t.put(b'0' + v / 10);
            t.put(b'0' + v % 10);
        }
        K_STR => {
            t.put(b'"');
            let mut i = 0;
            while i < x.len {
                kani::assume(plain(d.b[x.off + i]));
                t.put(d.b[x.off + i]);
                i += 1;
            }
            t.put(b'"');
        }
        _ => {
            t.put(if x.kind == K_ARR { b'[' } else { b'{' });
            let mut i = 0;
            while i < x.cnt {
                if i > 0 {
                    t.put(b',');
                }
                if x.kind == K_OBJ {
                    t.put(b'"');
                    let mut j = 0;
                    while j < x.klen[i] {
                        kani::assume(plain(d.b[x.koff[i] + j]));
                        t.put(d.b[x.koff[i] + j]);
                        j += 1;
                    }
                    t.put(b'"');
                    t.put(b':');
                }
                render(d, x.kids[i], t);
                i += 1;
            }
            t.put(if x.kind == K_ARR { b']' } else { b'}' });
        }
    }
}
pub fn text_of(d: &B) -> T {
    let mut t = T { b: [0; 64], n: 0 };
    render(d, d.root, &mut t);
    t
}

fn same_vec(a: &Vec<u8>, b: &Vec<u8>) -> bool {
    if a.len() != b.len() {
        return false;
    }
    let mut i = 0;
    while i < XCAP {
        if i < a.len() && a[i] != b[i] {
            return false;
        }
        i += 1;
    }
    true
}
fn same_opt(a: &Option<Vec<u8>>, b: &Option<Vec<u8>>) -> bool {
    match (a, b) {
        (None, None) => true,
        (Some(x), Some(y)) => same_vec(x, y),
        _ => false,
    }
}
/// run a buffer-writing function on both forms: same outcome, byte-identical output
fn same_out<E>(f: impl Fn(&[u8], &mut Vec<u8>) -> Result<(), E>, t: &T, d: &B) {
    let (mut o1, mut o2) = (Vec::new(), Vec::new());
    let (r1, r2) = (f(t.bytes(), &mut o1), f(d.bytes(), &mut o2));
    assert!(r1.is_ok() == r2.is_ok(), "same success or error outcome for text and for JSONB");
    assert!(same_vec(&o1, &o2), "byte-identical JSONB output for text and for JSONB");
    core::mem::forget((o1, o2));
}

fn docs(k: usize, f: impl Fn(&B)) {
    let n = leaf(K_NUM, 2);
    let s = leaf(K_STR, 1);
    match k {
        0 => f(&B::build(&arr(&[n, s, leaf(K_NULL, 0)]))),
        1 => f(&B::build(&obj(&[1, 1], &[n, arr(&[leaf(K_TRUE, 0)])]))),
        2 => f(&B::build(&n)),
        3 => f(&B::build(&s)),
        4 => f(&B::build(&arr(&[arr(&[s]), obj(&[1], &[leaf(K_NULL, 0)])]))),
        _ => f(&B::build(&leaf(K_FALSE, 0))),
    }
}

//@ props: UNREACHED-C11
//@ timeout: 1800
//@ harness: c11_accessors
//@ desc: array_length, get_by_index (0..=3), get_by_name (symbolic name, both case modes), object_keys, array_values, type_of, is_*/as_* views, exists_any/all_keys, traverse_check_string on six documents ([n,s,null], {a:n,b:[true]}, n, s, [[s],{k:null}], false; two-digit numbers, plain ASCII strings) given as JSON text and as JSONB: identical results
//@ fns: array_length, get_by_index, get_by_name, object_keys, array_values, type_of, as_bool, as_number, as_str, exists_all_keys, exists_any_keys, traverse_check_string, parse_value, Value::get_by_name_ignore_case, Value::to_vec
//@ bounds: documents of depth 2; numbers 10..=99; 1-character strings and keys
//@ stubs: drop_in_place -> no-op
//@ outside: JSON texts outside this template family (escapes, floats, whitespace); to_serde_json's text branch (serde_json's parser)
harness!(c11_accessors, split1(6, |k| docs(k, |d| {
    let t = text_of(d);
    let (tb, db) = (t.bytes(), d.bytes());
    assert!(array_length(tb) == array_length(db), "array_length");
    let mut i = 0;
    while i < 4 {
        let (a, b) = (get_by_index(tb, i), get_by_index(db, i));
        assert!(same_opt(&a, &b), "get_by_index");
        core::mem::forget((a, b));
        i += 1;
    }
    let nm = Name::of_len(1);
    let ic: bool = kani::any();
    let (a, b) = (get_by_name(tb, nm.as_str(), ic), get_by_name(db, nm.as_str(), ic));
    assert!(same_opt(&a, &b), "get_by_name");
    core::mem::forget((a, b));
    let (a, b) = (object_keys(tb), object_keys(db));
    assert!(same_opt(&a, &b), "object_keys");
    core::mem::forget((a, b));
    let (a, b) = (array_values(tb), array_values(db));
    assert!(a.is_some() == b.is_some(), "array_values");
    if let (Some(x), Some(y)) = (&a, &b) {
        assert!(x.len() == y.len(), "array_values");
        let mut i = 0;
        while i < 3 {
            if i < x.len() {
                assert!(same_vec(&x[i], &y[i]), "array_values");
            }
            i += 1;
        }
    }
    core::mem::forget((a, b));
    assert!(type_of(tb) == type_of(db), "type_of");
    assert!(is_null(tb) == is_null(db) && as_bool(tb) == as_bool(db) && is_array(tb) == is_array(db) && is_object(tb) == is_object(db), "kind tests");
    assert!(as_number(tb) == as_number(db) && as_i64(tb) == as_i64(db) && as_u64(tb) == as_u64(db), "number views");
    assert!(as_str(tb).map(|s| s.as_bytes().first().copied()) == as_str(db).map(|s| s.as_bytes().first().copied()), "as_str");
    let ks: [&[u8]; 1] = [&nm.b[..1]];
    assert!(exists_all_keys(tb, ks.iter().copied()) == exists_all_keys(db, ks.iter().copied()), "exists_all_keys");
    assert!(exists_any_keys(tb, ks.iter().copied()) == exists_any_keys(db, ks.iter().copied()), "exists_any_keys");
    let pred = |s: &[u8]| s.len() == 1 && s[0] == nm.b[0];
    assert!(traverse_check_string(tb, pred) == traverse_check_string(db, pred), "traverse_check_string");
})));

//@ props: UNREACHED-C11
//@ timeout: 1800
//@ harness: c11_keypath
//@ desc: get_by_keypath and delete_by_keypath with one- and two-element key paths (indices -4..=4 by case split, symbolic names) on [n,s,null], {a:n,b:[true]}, [[s],{k:null}] given as text and as JSONB: identical results
//@ fns: get_by_keypath, delete_by_keypath, delete_value_array_by_keypath, delete_value_object_by_keypath
//@ bounds: paths <= 2 elements
//@ stubs: drop_in_place -> no-op
harness!(c11_keypath, split1(3, |k| docs([0, 1, 4][k], |d| {
    let t = text_of(d);
    let i: i32 = kani::any();
    kani::assume(i >= -4 && i <= 4);
    let nm = Name::of_len(1);
    let second_name: bool = kani::any();
    let mut v = -4;
    while v <= 4 {
        if i == v {
            let (p, q) = (KeyPath::Index(i), KeyPath::Name(Cow::Borrowed(nm.as_str())));
            let two: bool = kani::any();
            let path: [&KeyPath; 2] = if second_name { [&p, &q] } else { [&q, &p] };
            let cnt = if two { 2 } else { 1 };
            let (a, b) = (get_by_keypath(t.bytes(), path[..cnt].iter().copied()), get_by_keypath(d.bytes(), path[..cnt].iter().copied()));
            assert!(same_opt(&a, &b), "get_by_keypath");
            core::mem::forget((a, b));
            same_out(|x, o| delete_by_keypath(x, path[..cnt].iter().copied(), o), &t, d);
        }
        v += 1;
    }
})));

//@ props: UNREACHED-C11
//@ timeout: 1800
//@ harness: c11_editors
//@ desc: delete_by_index (any i32 except MIN), delete_by_name, strip_nulls, array_distinct, object_delete, object_pick, convert_to_comparable on the six documents as text and as JSONB: same outcome and byte-identical output
//@ fns: delete_by_index, delete_by_name, strip_nulls, strip_value_nulls, array_distinct, object_delete, object_pick, convert_to_comparable
//@ bounds: as c11_accessors
//@ stubs: drop_in_place -> no-op
harness!(c11_editors, split1(6, |k| docs(k, |d| {
    let t = text_of(d);
    let i: i32 = kani::any();
    kani::assume(i != i32::MIN);
    same_out(|x, o| delete_by_index(x, i, o), &t, d);
    let nm = Name::of_len(1);
    same_out(|x, o| delete_by_name(x, nm.as_str(), o), &t, d);
    same_out(|x, o| strip_nulls(x, o), &t, d);
    same_out(|x, o| array_distinct(x, o), &t, d);
    let mut set = BTreeSet::new();
    set.insert(nm.as_str());
    same_out(|x, o| object_delete(x, &set, o), &t, d);
    same_out(|x, o| object_pick(x, &set, o), &t, d);
    core::mem::forget(set);
    same_out(|x, o| { convert_to_comparable(x, o); Ok::<(), ()>(()) }, &t, d);
})));

fn pair_fns(a: &B, b: &B, ta: bool, tb: bool) {
    let (xa, xb) = (text_of(a), text_of(b));
    let la: &[u8] = if ta { xa.bytes() } else { a.bytes() };
    let lb: &[u8] = if tb { xb.bytes() } else { b.bytes() };
    assert!(compare(la, lb) == compare(a.bytes(), b.bytes()), "compare: same ordering whichever side is text");
    assert!(contains(la, lb) == contains(a.bytes(), b.bytes()), "contains");
    assert!(array_overlap(la, lb) == array_overlap(a.bytes(), b.bytes()), "array_overlap");
    let two = |f: &dyn Fn(&[u8], &[u8], &mut Vec<u8>) -> Result<(), crate::error::Error>| {
        let (mut o1, mut o2) = (Vec::new(), Vec::new());
        let (r1, r2) = (f(la, lb, &mut o1), f(a.bytes(), b.bytes(), &mut o2));
        assert!(r1.is_ok() == r2.is_ok(), "same outcome for every text/JSONB choice of the two arguments");
        assert!(same_vec(&o1, &o2), "byte-identical output for every text/JSONB choice of the two arguments");
        core::mem::forget((o1, o2));
    };
    two(&|x, y, o| concat(x, y, o));
    two(&|x, y, o| array_intersection(x, y, o));
    two(&|x, y, o| array_except(x, y, o));
    let pos: i32 = kani::any();
    kani::assume(pos > -5 && pos < 5);
    two(&|x, y, o| array_insert(x, pos, y, o));
    let nm = Name::of_len(1);
    let upd: bool = kani::any();
    two(&|x, y, o| object_insert(x, nm.as_str(), y, upd, o));
}
//@ props: UNREACHED-C11
//@ timeout: 3600
//@ harness: c11_pairs_tt, c11_pairs_tb, c11_pairs_bt
//@ desc: two-document functions compare, contains, array_overlap, concat, array_intersection, array_except, array_insert, object_insert on document pairs from {[n,s,null], {a:n,b:[true]}, n, s} with the text/JSONB choice of each argument (text-text, text-JSONB, JSONB-text) against the all-JSONB call: same result, same outcome, byte-identical output
//@ fns: compare, contains, contains_value, array_overlap, concat, concat_values, array_intersection, array_except, array_insert, object_insert, from_slice, parse_value
//@ bounds: as c11_accessors
//@ stubs: drop_in_place -> no-op
harness!(c11_pairs_tt, split2(4, 4, |i, j| docs(i, |a| docs(j, |b| pair_fns(a, b, true, true)))));
harness!(c11_pairs_tb, split2(4, 4, |i, j| docs(i, |a| docs(j, |b| pair_fns(a, b, true, false)))));
harness!(c11_pairs_bt, split2(4, 4, |i, j| docs(i, |a| docs(j, |b| pair_fns(a, b, false, true)))));

//@ props: UNREACHED-C11
//@ timeout: 1800
//@ harness: c11_paths
//@ desc: path functions path_exists, path_match (predicate path), get_by_path, get_by_path_first, get_by_path_array with `$[*]`, `$.*`, `$.<name>` and the predicate `$[*] == <number literal>` on [n,s,null] and {a:n,b:[true]} as text and as JSONB: same booleans, byte-identical data and offsets
//@ fns: path_exists, path_match, get_by_path, get_by_path_first, get_by_path_array
//@ bounds: as c11_accessors
//@ stubs: drop_in_place -> no-op
harness!(c11_paths, split2(2, 4, |k, pk| docs(k, |d| {
    let t = text_of(d);
    let nm = Name::of_len(1);
    let lit: u8 = kani::any();
    let mk = || -> JsonPath { match pk {
        0 => JsonPath { paths: vec![Path::Root, Path::BracketWildcard] },
        1 => JsonPath { paths: vec![Path::Root, Path::DotWildcard] },
        2 => JsonPath { paths: vec![Path::Root, Path::DotField(Cow::Borrowed(nm.as_str()))] },
        _ => JsonPath { paths: vec![Path::Predicate(Box::new(Expr::BinaryOp { op: BinaryOperator::Eq, left: Box::new(Expr::Paths(vec![Path::Root, Path::BracketWildcard])), right: Box::new(Expr::Value(Box::new(PathValue::Number(Number::UInt64(lit as u64))))) }))] },
    } };
    assert!(path_exists(t.bytes(), mk()) == path_exists(d.bytes(), mk()), "path_exists");
    assert!(path_match(t.bytes(), mk()).ok() == path_match(d.bytes(), mk()).ok(), "path_match");
    let mut m = 0;
    while m < 3 {
        let (mut d1, mut o1, mut d2, mut o2) = (Vec::new(), Vec::new(), Vec::new(), Vec::new());
        let (r1, r2) = match m {
            0 => (get_by_path(t.bytes(), mk(), &mut d1, &mut o1), get_by_path(d.bytes(), mk(), &mut d2, &mut o2)),
            1 => (get_by_path_first(t.bytes(), mk(), &mut d1, &mut o1), get_by_path_first(d.bytes(), mk(), &mut d2, &mut o2)),
            _ => (get_by_path_array(t.bytes(), mk(), &mut d1, &mut o1), get_by_path_array(d.bytes(), mk(), &mut d2, &mut o2)),
        };
        assert!(r1.is_ok() == r2.is_ok() && same_vec(&d1, &d2) && o1.len() == o2.len(), "get_by_path*: same data and offsets");
        let mut i = 0;
        while i < 4 {
            if i < o1.len() {
                assert!(o1[i] == o2[i], "get_by_path*: same offsets");
            }
            i += 1;
        }
        core::mem::forget((d1, o1, d2, o2));
        m += 1;
    }
})));

//@ props: UNREACHED-C11
//@ timeout: 300
//@ expect: twin
//@ desc: vacuity twin: the text and JSONB forms claimed to have different array lengths — must be refuted
//@ fns: array_length
#[kani::proof]
#[kani::unwind(5)]
#[kani::stub(std::ptr::drop_in_place, noop_drop)]
fn c11_twin_must_fail() {
    let d = B::build(&arr(&[leaf(K_NUM, 2), leaf(K_STR, 1)]));
    let t = text_of(&d);
    assert!(array_length(t.bytes()) != array_length(d.bytes()), "TWIN: deliberately false");
}
