//! C19 — conversion to and from serde_json preserves the document.
use super::bdoc::*;
use super::common::*;
use crate::de::parse_jsonb;
use crate::functions::{to_serde_json, to_serde_json_object};
use crate::number::Number;
use crate::value::Value;
use serde_json::Value as J;

macro_rules! harness {
    ($name:ident, $body:expr) => {
        #[kani::proof]
        #[kani::unwind(5)]
        #[kani::stub(crate::parser::parse_value, no_parse_value)]
        #[kani::stub(std::ptr::drop_in_place, noop_drop)]
        fn $name() {
            $body
        }
    };
}

fn str_is(s: &str, d: &B, off: usize, len: usize) -> bool {
    let b = s.as_bytes();
    if b.len() != len {
        return false;
    }
    let mut i = 0;
    while i < len {
        if b[i] != d.b[off + i] {
            return false;
        }
        i += 1;
    }
    true
}

/// the serde_json value is the document: same structure, strings, member sets, and each number as the
/// same u64, i64 or f64
fn j_matches(j: &J, d: &B, id: usize) -> bool {
    let x = d.node(id);
    match j {
        J::Null => x.kind == K_NULL,
        J::Bool(b) => (x.kind == K_TRUE && *b) || (x.kind == K_FALSE && !*b),
        J::Number(n) => {
            if x.kind != K_NUM {
                return false;
            }
            match d.num(&x) {
                Number::UInt64(v) => n.as_u64() == Some(v),
                Number::Int64(v) => n.as_i64() == Some(v),
                Number::Float64(f) => !n.is_i64() && !n.is_u64() && n.as_f64().map(|g| g.to_bits()) == Some(f.to_bits()),
            }
        }
        J::String(s) => x.kind == K_STR && str_is(s, d, x.off, x.len),
        J::Array(v) => {
            if x.kind != K_ARR || v.len() != x.cnt {
                return false;
            }
            let mut ok = true;
            let mut i = 0;
            while i < x.cnt {
                if !j_matches(&v[i], d, x.kids[i]) {
                    ok = false;
                }
                i += 1;
            }
            ok
        }
        J::Object(m) => {
            if x.kind != K_OBJ || m.len() != x.cnt {
                return false;
            }
            let mut ok = true;
            let mut i = 0;
            for (k, v) in m.iter() {
                if i < x.cnt && (!str_is(k, d, x.koff[i], x.klen[i]) || !j_matches(v, d, x.kids[i])) {
                    ok = false;
                }
                i += 1;
            }
            ok
        }
    }
}

fn finite(d: &B) -> bool {
    let mut ok = true;
    let mut i = 0;
    while i < d.nn {
        let x = d.node(i);
        if x.kind == K_NUM {
            if let Number::Float64(f) = d.num(&x) {
                if !f.is_finite() {
                    ok = false;
                }
            }
        }
        i += 1;
    }
    ok
}

fn bridge(d: &B) {
    kani::assume(finite(d));
    // bytes -> serde_json
    let r = to_serde_json(d.bytes());
    assert!(r.is_ok(), "a document with finite numbers converts");
    let j = r.unwrap();
    assert!(j_matches(&j, d, d.root), "to_serde_json gives the same document: structure, strings, member sets, each number as the same u64/i64/f64");
    // object-only variant
    let o = to_serde_json_object(d.bytes());
    assert!(o.is_ok());
    let o = o.unwrap();
    if d.node(d.root).kind == K_OBJ {
        let m = o.unwrap();
        let jo = J::Object(m);
        assert!(j_matches(&jo, d, d.root), "to_serde_json_object returns the members of an object");
        core::mem::forget(jo);
    } else {
        assert!(o.is_none(), "to_serde_json_object returns nothing for other kinds");
    }
    // serde_json -> Value -> bytes: back to the same document (non-negative integers come back unsigned,
    // which is how the document stores them when it came from text)
    let v: Value = (&j).into();
    let back = v.to_vec();
    let tree = parse_jsonb(d.bytes()).unwrap();
    // Value -> serde_json from the tree agrees with the byte path
    let j2: J = tree.clone().into();
    assert!(j2 == j, "the value-tree conversion agrees with the byte-level conversion");
    let mut all_unsigned = true;
    let mut i = 0;
    while i < d.nn {
        let x = d.node(i);
        if x.kind == K_NUM {
            if let Number::Int64(q) = d.num(&x) {
                if q >= 0 {
                    all_unsigned = false;
                }
            }
        }
        i += 1;
    }
    if all_unsigned {
        assert!(same(&back, &d.b, d.n), "serde_json -> Value -> JSONB gives back the identical document");
    }
    assert!(v == tree, "converting back gives a value equal to the original");
    core::mem::forget((j, j2, v, back, tree));
}

//@ props: C19
//@ timeout: 1800
//@ harness: c19_scalar, c19_shape_0, c19_shape_2, c19_shape_3, c19_shape_4, c19_shape_8, c19_empty
//@ desc: to_serde_json / to_serde_json_object on scalar documents of all classes (numbers restricted to finite) and on [x,y,s], [x,{k:y},n], {k:x,kk:y}, {"":x,k:[y]}, {a:{j:x},b:y,cc:null}, [], {}, [{}], {k:{}} with symbolic payloads: the serde_json value has the same structure, strings, member sets and each number as the same u64/i64/f64; the object-only variant returns the members for objects and nothing otherwise; serde_json -> Value -> bytes returns the identical document when non-negative integers are stored unsigned; the Value-tree conversion agrees with the byte-level one
//@ fns: to_serde_json, to_serde_json_object, containter_to_serde_json, containter_to_serde_json_object, scalar_to_serde_json, From<&serde_json::Value> for Value, From<Value> for serde_json::Value
//@ bounds: depth 2, <= 3 children; finite numbers; serde_json built without preserve_order (BTreeMap-backed Map)
//@ stubs: parse_value -> panic | drop_in_place -> no-op
//@ outside: the preserve_order (IndexMap) build of serde_json | non-finite numbers | the JSON-text branch of to_serde_json (serde_json's own parser)
harness!(c19_scalar, split1(NCLS, |i| bridge(&B::build(&lf(CLS[i])))));
harness!(c19_shape_0, shapes_split(0, &CLS_T, 2, |d| bridge(d)));
harness!(c19_shape_2, shapes_split(2, &CLS_T, 2, |d| bridge(d)));
harness!(c19_shape_3, shapes_split(3, &CLS_S, 3, |d| bridge(d)));
harness!(c19_shape_4, shapes_split(4, &CLS_T, 2, |d| bridge(d)));
harness!(c19_shape_8, with_shape(8, (K_NUM, 9), (K_STR, 1), |d| bridge(d)));
harness!(c19_empty, split1(4, |k| match k {
    0 => bridge(&B::build(&arr(&[]))),
    1 => bridge(&B::build(&obj(&[], &[]))),
    2 => bridge(&B::build(&arr(&[obj(&[], &[]), arr(&[])]))),
    _ => bridge(&B::build(&obj(&[1, 2], &[obj(&[], &[]), arr(&[])]))),
}));

//@ props: C19
//@ timeout: 300
//@ expect: twin
//@ desc: vacuity twin: converting a number document claimed to fail — must be refuted
//@ fns: to_serde_json
#[kani::proof]
#[kani::unwind(5)]
#[kani::stub(crate::parser::parse_value, no_parse_value)]
#[kani::stub(std::ptr::drop_in_place, noop_drop)]
fn c19_twin_must_fail() {
    let d = B::build(&leaf(K_NUM, 2));
    let r = to_serde_json(d.bytes());
    let bad = r.is_err();
    core::mem::forget(r);
    assert!(bad, "TWIN: deliberately false");
}
