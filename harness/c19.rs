//! C19 — conversion to and from serde_json preserves the document.
use super::bdoc::*;
use super::common::*;
use crate::de::parse_jsonb;
use crate::functions::{to_serde_json, to_serde_json_object};
use crate::number::Number;
use crate::value::Value;
use serde_json::Value as J;

macro_rules! harness {
    ($name:ident, $body:expr) => {
        #[kani::proof]
        #[kani::unwind(3)]
        #[kani::stub(crate::parser::parse_value, no_parse_value)]
        #[kani::stub(std::ptr::drop_in_place, noop_drop)]
        fn $name() {
            $body
        }
    };
}

fn str_is(s: &str, d: &B, off: usize, len: usize) -> bool {
    let b = s.as_bytes();
    if b.len() != len {
        return false;
    }
    let mut i = 0;
    while i < len {
        if b[i] != d.b[off + i] {
            return false;
        }
        i += 1;
    }
    true
}

/// the serde_json value is the document: same structure, strings, member sets, and each number as the
/// same u64, i64 or f64
fn j_matches(j: &J, d: &B, id: usize) -> bool {
    let x = d.node(id);
    match j {
        J::Null => x.kind == K_NULL,
        J::Bool(b) => (x.kind == K_TRUE && *b) || (x.kind == K_FALSE && !*b),
        J::Number(n) => {
            if x.kind != K_NUM {
                return false;
            }
            match d.num(&x) {
                Number::UInt64(v) => n.as_u64() == Some(v),
                Number::Int64(v) => n.as_i64() == Some(v),
                Number::Float64(f) => !n.is_i64() && !n.is_u64() && n.as_f64().map(|g| g.to_bits()) == Some(f.to_bits()),
            }
        }
        J::String(s) => x.kind == K_STR && str_is(s, d, x.off, x.len),
        J::Array(v) => {
            if x.kind != K_ARR || v.len() != x.cnt {
                return false;
            }
            let mut ok = true;
            let mut i = 0;
            while i < x.cnt {
                if !j_matches(&v[i], d, x.kids[i]) {
                    ok = false;
                }
                i += 1;
            }
            ok
        }
        J::Object(m) => {
            if x.kind != K_OBJ || m.len() != x.cnt {
                return false;
            }
            let mut ok = true;
            let mut i = 0;
            for (k, v) in m.iter() {
                if i < x.cnt && (!str_is(k, d, x.koff[i], x.klen[i]) || !j_matches(v, d, x.kids[i])) {
                    ok = false;
                }
                i += 1;
            }
            ok
        }
    }
}

fn finite(d: &B) -> bool {
    let mut ok = true;
    let mut i = 0;
    while i < d.nn {
        let x = d.node(i);
        if x.kind == K_NUM {
            if let Number::Float64(f) = d.num(&x) {
                if !f.is_finite() {
                    ok = false;
                }
            }
        }
        i += 1;
    }
    ok
}

fn bridge(d: &B) {
    kani::assume(finite(d));
    // bytes -> serde_json
    let r = to_serde_json(d.bytes());
    assert!(r.is_ok(), "a document with finite numbers converts");
    let j = r.unwrap();
    assert!(j_matches(&j, d, d.root), "to_serde_json gives the same document: structure, strings, member sets, each number as the same u64/i64/f64");
    // object-only variant
    let o = to_serde_json_object(d.bytes());
    assert!(o.is_ok());
    let o = o.unwrap();
    if d.node(d.root).kind == K_OBJ {
        assert!(o.is_some(), "to_serde_json_object returns the members of an object");
        let jo = J::Object(o.unwrap());
        assert!(j_matches(&jo, d, d.root), "to_serde_json_object returns the members of an object");
        core::mem::forget(jo);
    } else {
        assert!(o.is_none(), "to_serde_json_object returns nothing for other kinds");
        core::mem::forget(o);
    }
    core::mem::forget(j);
}

/// scalar round trip through the Value conversions: Value -> serde_json -> Value
fn value_bridge(d: &B) {
    kani::assume(finite(d));
    let x = d.node(d.root);
    let v = match x.kind {
        K_NULL => Value::Null,
        K_TRUE => Value::Bool(true),
        K_FALSE => Value::Bool(false),
        _ => Value::Number(d.num(&x)),
    };
    let j: J = v.clone().into();
    assert!(j_matches(&j, d, d.root), "Value -> serde_json gives the same scalar");
    let back: Value = (&j).into();
    assert!(back == v, "serde_json -> Value gives back an equal value");
    if let (Value::Number(a), Value::Number(b)) = (&back, &v) {
        let same_repr = matches!((a, b), (Number::UInt64(_), Number::UInt64(_)) | (Number::Float64(_), Number::Float64(_)) | (Number::Int64(_), Number::Int64(_)));
        let nonneg_int = matches!(b, Number::Int64(q) if *q >= 0);
        assert!(same_repr || (nonneg_int && matches!(a, Number::UInt64(_))), "the number comes back in the same representation (non-negative integers unsigned)");
    }
    core::mem::forget((j, back, v));
}

//@ props: C19
//@ timeout: 1200
//@ harness: c19_scalar_a, c19_scalar_b, c19_value_scalar, c19_arr, c19_empty, c19_empty_nested
//@ desc: to_serde_json / to_serde_json_object on scalar documents of all 11 classes (finite numbers), on [n9,null,s] and on [], {}, [{}] (a nested empty object) with symbolic payloads: the serde_json value has the same structure, strings, member sets and each number as the same u64/i64/f64 (so an unsigned integer above i64::MAX stays unsigned, a nested empty object stays an object); the object-only variant returns the members for objects and nothing otherwise; Value -> serde_json -> Value on every scalar class returns an equal value in the same representation
//@ fns: to_serde_json, to_serde_json_object, containter_to_serde_json, containter_to_serde_json_object, scalar_to_serde_json, From<&serde_json::Value> for Value, From<Value> for serde_json::Value
//@ bounds: depth 2, <= 3 array elements, no non-empty objects (inserting symbolic keys into serde_json's BTreeMap-backed Map is not reached); finite numbers; serde_json built without preserve_order (BTreeMap-backed Map)
//@ stubs: parse_value -> panic | drop_in_place -> no-op
//@ outside: the preserve_order (IndexMap) build of serde_json | non-finite numbers | the JSON-text branch of to_serde_json (serde_json's parser) | Value <-> serde_json conversions of containers
harness!(c19_scalar_a, split1(6, |i| bridge(&B::build(&lf(CLS[i])))));
harness!(c19_scalar_b, split1(5, |i| bridge(&B::build(&lf(CLS[6 + i])))));
harness!(c19_value_scalar, split1(8, |i| value_bridge(&B::build(&lf(CLS[i])))));
harness!(c19_arr, with_shape(0, (K_NUM, 9), (K_NULL, 0), |d| bridge(d)));
harness!(c19_empty, split1(2, |k| if k == 0 { bridge(&B::build(&arr(&[]))) } else { bridge(&B::build(&obj(&[], &[]))) }));
harness!(c19_empty_nested, bridge(&B::build(&arr(&[obj(&[], &[])]))));

//@ props: C19
//@ timeout: 300
//@ expect: twin
//@ desc: vacuity twin: converting a number document claimed to fail — must be refuted
//@ fns: to_serde_json
#[kani::proof]
#[kani::unwind(3)]
#[kani::stub(crate::parser::parse_value, no_parse_value)]
#[kani::stub(std::ptr::drop_in_place, noop_drop)]
fn c19_twin_must_fail() {
    let d = B::build(&leaf(K_NUM, 2));
    let r = to_serde_json(d.bytes());
    let bad = r.is_err();
    core::mem::forget(r);
    assert!(bad, "TWIN: deliberately false");
}
