//! C02 — JSON text parser accepts exactly the documented language, with standard meaning.
//! Lexical kernels over symbolic bytes, through the public parse_value.
use super::common::*;
use crate::number::Number;
use crate::parser::parse_value;
use crate::value::Value;

macro_rules! harness {
    ($name:ident, $unw:expr, $body:expr) => {
        #[kani::proof]
        #[kani::unwind(5)]
        #[kani::stub(std::ptr::drop_in_place, noop_drop)]
        fn $name() {
            $body
        }
    };
}

/// integer literals: optional minus, L arbitrary digits without a leading zero
fn integers(len: usize, neg: bool) {
    let ds: [u8; 20] = kani::any();
    let mut t = [0u8; 22];
    let mut n = 0;
    if neg {
        t[0] = b'-';
        n = 1;
    }
    let mut v: u128 = 0;
    let mut i = 0;
    while i < len {
        kani::assume(ds[i] >= b'0' && ds[i] <= b'9');
        t[n] = ds[i];
        n += 1;
        v = v * 10 + (ds[i] - b'0') as u128;
        i += 1;
    }
    kani::assume(len == 1 || ds[0] != b'0');
    // values that fit stay exact; larger ones become doubles (their rounding is outside this claim)
    if neg {
        kani::assume(v <= 1u128 << 63);
    } else {
        kani::assume(v <= u64::MAX as u128);
    }
    let r = parse_value(&t[..n]);
    assert!(r.is_ok(), "an RFC 8259 integer is accepted");
    match r.unwrap() {
        Value::Number(Number::UInt64(x)) => assert!(!neg && x as u128 == v, "a non-negative integer that fits u64 is kept exact"),
        Value::Number(Number::Int64(x)) => assert!(neg && (-(x as i128)) as u128 == v, "a negative integer that fits i64 is kept exact"),
        _ => assert!(false, "an integer that fits is not turned into a float"),
    }
}
//@ props: UNREACHED-C02
//@ timeout: 1800
//@ harness: c02_int_short, c02_int_19, c02_int_20, c02_negint_19
//@ desc: integer literals with arbitrary digits: 1..=4 digits (both signs), 19 and 20 digits unsigned up to u64::MAX, 19 digits negative down to -9223372036854775808: accepted and kept exact as UInt64 (non-negative) or Int64 (negative), including the boundaries 2^63-1, 2^63, 2^64-1 and -2^63
//@ fns: parse_value, Parser::parse_json_value, Parser::parse_json_number, Parser::step_digits, str::parse::<u64>, str::parse::<i64>
//@ bounds: integers that fit u64 / i64; larger literals (doubles) are outside this harness
//@ stubs: drop_in_place -> no-op
//@ outside: nearest-double rounding of fractional, exponent and overlong literals (fast_float2 decimal-to-binary conversion is not encoded)
harness!(c02_int_short, 24, { let l: usize = kani::any(); kani::assume(l >= 1 && l <= 4); let neg: bool = kani::any(); let mut k = 1; while k <= 4 { if l == k { if neg { integers(k, true) } else { integers(k, false) } } k += 1; } });
harness!(c02_int_19, 24, integers(19, false));
harness!(c02_int_20, 24, integers(20, false));
harness!(c02_negint_19, 24, integers(19, true));

/// `"\uXXXX\uYYYY"`: every pair of 4-hex-digit escapes
fn hexval(c: u8) -> u32 {
    if c <= b'9' { (c - b'0') as u32 } else if c <= b'F' { (c - b'A' + 10) as u32 } else { (c - b'a' + 10) as u32 }
}
fn is_hex(c: u8) -> bool {
    (c >= b'0' && c <= b'9') || (c >= b'a' && c <= b'f') || (c >= b'A' && c <= b'F')
}
fn utf8_of(cp: u32, out: &mut [u8; 16], at: usize) -> usize {
    if cp < 0x80 {
        out[at] = cp as u8;
        1
    } else if cp < 0x800 {
        out[at] = 0xC0 | (cp >> 6) as u8;
        out[at + 1] = 0x80 | (cp & 0x3F) as u8;
        2
    } else if cp < 0x10000 {
        out[at] = 0xE0 | (cp >> 12) as u8;
        out[at + 1] = 0x80 | ((cp >> 6) & 0x3F) as u8;
        out[at + 2] = 0x80 | (cp & 0x3F) as u8;
        3
    } else {
        out[at] = 0xF0 | (cp >> 18) as u8;
        out[at + 1] = 0x80 | ((cp >> 12) & 0x3F) as u8;
        out[at + 2] = 0x80 | ((cp >> 6) & 0x3F) as u8;
        out[at + 3] = 0x80 | (cp & 0x3F) as u8;
        4
    }
}
/// an unpaired surrogate escape is kept as the literal six characters `\uXXXX`
fn literal(h: &[u8; 8], from: usize, out: &mut [u8; 16], at: usize) -> usize {
    out[at] = b'\\';
    out[at + 1] = b'u';
    out[at + 2] = h[from];
    out[at + 3] = h[from + 1];
    out[at + 4] = h[from + 2];
    out[at + 5] = h[from + 3];
    6
}
fn escapes(class: usize) {
    let h: [u8; 8] = kani::any();
    let mut i = 0;
    while i < 8 {
        kani::assume(is_hex(h[i]));
        i += 1;
    }
    let a = (hexval(h[0]) << 12) | (hexval(h[1]) << 8) | (hexval(h[2]) << 4) | hexval(h[3]);
    let b = (hexval(h[4]) << 12) | (hexval(h[5]) << 8) | (hexval(h[6]) << 4) | hexval(h[7]);
    let hi = |x: u32| x >= 0xD800 && x <= 0xDBFF;
    let lo = |x: u32| x >= 0xDC00 && x <= 0xDFFF;
    // partition so that each run is small: 0 = first is a high surrogate, 1 = first is a low surrogate, 2 = neither
    kani::assume(match class { 0 => hi(a), 1 => lo(a), _ => !hi(a) && !lo(a) });
    let t: [u8; 14] = [b'"', b'\\', b'u', h[0], h[1], h[2], h[3], b'\\', b'u', h[4], h[5], h[6], h[7], b'"'];
    let mut want = [0u8; 16];
    let mut n = 0;
    if hi(a) && lo(b) {
        n += utf8_of(0x10000 + ((a - 0xD800) << 10) + (b - 0xDC00), &mut want, n);
    } else {
        if hi(a) || lo(a) {
            n += literal(&h, 0, &mut want, n);
        } else {
            n += utf8_of(a, &mut want, n);
        }
        if hi(a) && !lo(b) {
            // a high surrogate followed by an escape that is not a low surrogate: both stay literal text
            n += literal(&h, 4, &mut want, n);
        } else if hi(b) || lo(b) {
            n += literal(&h, 4, &mut want, n);
        } else {
            n += utf8_of(b, &mut want, n);
        }
    }
    let r = parse_value(&t);
    assert!(r.is_ok(), "a string of two \\u escapes is accepted");
    match r.unwrap() {
        Value::String(s) => {
            let g = s.as_bytes();
            assert!(g.len() == n, "escapes and surrogate pairs decode exactly; unpaired surrogates stay literal text");
            let mut k = 0;
            while k < 16 {
                if k < n {
                    assert!(g[k] == want[k], "escapes and surrogate pairs decode exactly; unpaired surrogates stay literal text");
                }
                k += 1;
            }
        }
        _ => assert!(false, "a quoted text is a string"),
    }
    kani::cover!(hi(a) && lo(b) && b == 0xDFFF, "pair ending in \\uDFFF");
}
//@ props: UNREACHED-C02
//@ timeout: 1800
//@ harness: c02_escape_pair_hi, c02_escape_pair_lo, c02_escape_pair_bmp
//@ desc: `"\\uXXXX\\uYYYY"` with all eight hex digits arbitrary (upper and lower case), partitioned by the class of the first escape (high surrogate / low surrogate / other): surrogate pairs (all 1024x1024, up to \\uDBFF\\uDFFF) decode to the astral character, other code points to their UTF-8, unpaired surrogate escapes are kept as the literal text \\uXXXX
//@ fns: parse_value, Parser::parse_json_string, parse_string, parse_escaped_string, decode_hex_escape, encode_invalid_unicode
//@ bounds: two escapes
//@ stubs: drop_in_place -> no-op
harness!(c02_escape_pair_hi, 24, escapes(0));
harness!(c02_escape_pair_lo, 24, escapes(1));
harness!(c02_escape_pair_bmp, 24, escapes(2));

/// one arbitrary byte between two tokens: which bytes are skipped as insignificant whitespace
fn separator(which: usize) {
    let c: u8 = kani::any();
    let t: [u8; 6] = match which {
        0 => [b'[', b'1', b',', c, b'2', b']'],
        1 => [b'[', b'1', c, b',', b'2', b']'],
        _ => [c, b'[', b'1', b',', b'2', b']'],
    };
    let ws = c == b' ' || c == b'\t' || c == b'\n' || c == b'\r' || c == 0x0C;
    let r = parse_value(&t);
    let expect_ok = match which {
        // before a value: whitespace, or a byte that extends the number: "-2", "12".."92"
        0 => ws || c == b'-' || (c >= b'1' && c <= b'9'),
        // after a value: whitespace, or a digit / '.'-less continuation of the number 1 -> "1d"
        1 => ws || (c >= b'0' && c <= b'9'),
        // before the document
        _ => ws,
    };
    assert!(r.is_ok() == expect_ok, "between tokens only space, tab, line feed, carriage return and form feed are skipped");
    if let Ok(Value::Array(v)) = &r {
        assert!(v.len() == 2, "two elements");
    }
    kani::cover!(ws, "whitespace");
    kani::cover!(!expect_ok, "rejected");
    core::mem::forget(r);
}
//@ props: UNREACHED-C02
//@ timeout: 1800
//@ harness: c02_separator_0, c02_separator_1, c02_separator_2
//@ desc: `[1,<c>2]`, `[1<c>,2]` and `<c>[1,2]` with <c> ranging over all 256 byte values: accepted exactly when <c> is one of the five insignificant-whitespace bytes (space, tab, LF, CR, form feed) or legitimately extends the neighbouring number; every other byte (vertical tab 0x0B, other control bytes, letters, non-ASCII) is rejected with an error
//@ fns: parse_value, Parser::parse, Parser::skip_unused, Parser::parse_json_array, Parser::parse_json_number
//@ bounds: one symbolic byte per template
//@ stubs: drop_in_place -> no-op
harness!(c02_separator_0, 12, separator(0));
harness!(c02_separator_1, 12, separator(1));
harness!(c02_separator_2, 12, separator(2));

//@ props: UNREACHED-C02
//@ timeout: 1800
//@ harness: c02_total_3
//@ desc: parse_value on every byte string of length 0..=3: a value or an error, never a panic
//@ fns: parse_value, Parser::parse, Parser::parse_json_value, Parser::parse_json_string, Parser::parse_json_number, Parser::parse_json_array, Parser::parse_json_object
//@ bounds: input length <= 3
//@ stubs: drop_in_place -> no-op
harness!(c02_total_3, 8, {
    let buf: [u8; 3] = kani::any();
    let len: usize = kani::any();
    kani::assume(len <= 3);
    let mut l = 0;
    while l <= 3 {
        if len == l {
            let r = parse_value(&buf[..l]);
            kani::cover!(r.is_ok(), "accepted");
            core::mem::forget(r);
        }
        l += 1;
    }
});

//@ props: UNREACHED-C02
//@ timeout: 300
//@ expect: twin
//@ desc: vacuity twin: every 2-digit integer claimed to be rejected — must be refuted
//@ fns: parse_value
#[kani::proof]
#[kani::unwind(5)]
#[kani::stub(std::ptr::drop_in_place, noop_drop)]
fn c02_twin_must_fail() {
    let d: u8 = kani::any();
    kani::assume(d >= b'1' && d <= b'9');
    let t = [d, b'0'];
    let r = parse_value(&t);
    let bad = r.is_err();
    core::mem::forget(r);
    assert!(bad, "TWIN: deliberately false");
}
