//! C10 — decoding untrusted bytes never panics and never yields ill-formed strings.
use super::bdoc::*;
use super::common::*;
use crate::de::{from_slice, parse_jsonb};
use crate::error::Error;
use crate::value::Value;

macro_rules! harness {
    ($name:ident, $unw:expr, $body:expr) => {
        #[kani::proof]
        #[kani::unwind(5)]
        #[kani::stub(std::ptr::drop_in_place, noop_drop)]
        #[kani::stub(core::str::from_utf8, from_utf8_model)]
        fn $name() {
            $body
        }
    };
}

/// run the binary decoder on buf[..len] for every len 0..=N by case split (concrete slice length)
fn decode_all_lengths<const N: usize>(buf: &[u8; N]) {
    let len: usize = kani::any();
    kani::assume(len <= N);
    let mut l = 0;
    while l <= N {
        if len == l {
            let r = parse_jsonb(&buf[..l]);
            kani::cover!(r.is_ok(), "some input decodes");
            kani::cover!(r.is_err(), "some input is rejected");
            core::mem::forget(r);
        }
        l += 1;
    }
}

//@ props: UNREACHED-C10
//@ timeout: 1800
//@ harness: c10_bytes_8
//@ desc: parse_jsonb on every byte string of length 0..=8 (all bytes symbolic: header kind, counts, entry type and length fields, payloads): returns Ok or Err, never panics (no failed unwrap/assert/index, no arithmetic overflow)
//@ fns: parse_jsonb, Decoder::decode, Decoder::decode_jsonb, Decoder::decode_scalar, Decoder::decode_array, Decoder::decode_object, Decoder::decode_jentries, Number::decode
//@ bounds: input length <= 8 bytes
//@ stubs: drop_in_place -> no-op | core::str::from_utf8 -> specification model (DFA over Unicode table 3-7)
//@ outside: inputs longer than the bound | allocation failure
harness!(c10_bytes_8, 6, {
    let buf: [u8; 8] = kani::any();
    decode_all_lengths(&buf);
});

//@ props: UNREACHED-C10
//@ tier: thorough
//@ timeout: 3600
//@ harness: c10_bytes_12
//@ desc: parse_jsonb on every byte string of length 0..=12: Ok or Err, never a panic
//@ fns: parse_jsonb, Decoder::decode
//@ bounds: input length <= 12 bytes
//@ stubs: drop_in_place -> no-op | core::str::from_utf8 -> specification model (DFA over Unicode table 3-7)
harness!(c10_bytes_12, 6, {
    let buf: [u8; 12] = kani::any();
    decode_all_lengths(&buf);
});

/// scalar string document with an arbitrary payload: Ok exactly for well-formed UTF-8
fn string_payload(w: usize) {
    let mut d = B::build(&leaf(K_NULL, 0));
    // overwrite: string entry of width w, payload left fully symbolic (no UTF-8 assumption)
    let raw: [u8; 4] = kani::any();
    d.b[4] = 0x10;
    d.b[7] = w as u8;
    let mut i = 0;
    while i < w {
        d.b[8 + i] = raw[i];
        i += 1;
    }
    let r = parse_jsonb(&d.b[..8 + w]);
    let ok = utf8_ok_at(&d.b, 8, w);
    match r {
        Ok(v) => {
            assert!(ok, "a string with an ill-formed UTF-8 payload is never returned");
            assert!(matches!(v, Value::String(_)), "a string entry decodes to a string");
            core::mem::forget(v);
        }
        Err(e) => assert!(!ok && e == Error::InvalidUtf8, "well-formed strings decode; ill-formed ones are InvalidUtf8"),
    }
    kani::cover!(ok && w > 0, "well-formed");
    kani::cover!(!ok, "ill-formed");
}
//@ props: C10
//@ timeout: 1800
//@ harness: c10_string_utf8_1, c10_string_utf8_2, c10_string_utf8_3, c10_string_utf8_4
//@ desc: scalar string document with every possible payload of 1, 2, 3 and 4 bytes (fully symbolic, not assumed well-formed): the decoder returns a string exactly when the payload is well-formed UTF-8 (independent DFA over Unicode table 3-7) and InvalidUtf8 otherwise
//@ fns: parse_jsonb, Decoder::decode_scalar, core::str::from_utf8
//@ bounds: payload <= 4 bytes
//@ stubs: drop_in_place -> no-op | core::str::from_utf8 -> specification model (DFA over Unicode table 3-7)
harness!(c10_string_utf8_1, 20, string_payload(1));
harness!(c10_string_utf8_2, 20, string_payload(2));
harness!(c10_string_utf8_3, 20, string_payload(3));
harness!(c10_string_utf8_4, 20, string_payload(4));

/// object whose key bytes are arbitrary (not assumed well-formed, not assumed sorted): no panic, and a
/// value comes back only if every key is well-formed UTF-8 on its own
fn object_keys(l0: usize, l1: usize) {
    let mut d = B::build(&obj(&[l0, l1], &[leaf(K_NULL, 0), leaf(K_TRUE, 0)]));
    let raw: [u8; 4] = kani::any();
    let root = d.node(d.root);
    let k0 = root.koff[0];
    let mut i = 0;
    while i < l0 + l1 {
        d.b[k0 + i] = raw[i];
        i += 1;
    }
    let r = parse_jsonb(&d.b[..d.n]);
    let ok = utf8_ok_at(&d.b, k0, l0) && utf8_ok_at(&d.b, k0 + l0, l1);
    assert!(r.is_ok() == ok, "an object decodes exactly when each key is well-formed UTF-8");
    kani::cover!(ok, "well-formed keys");
    kani::cover!(!ok && utf8_ok_at(&d.b, k0, l0 + l1), "keys ill-formed although the key area as a whole is well-formed");
    core::mem::forget(r);
}
//@ props: UNREACHED-C10
//@ timeout: 1800
//@ harness: c10_object_keys_11, c10_object_keys_21, c10_object_keys_12
//@ desc: two-member object whose key bytes (lengths 1+1, 2+1, 1+2) are arbitrary, not assumed well-formed or sorted: the decoder never panics and returns a value exactly when each key on its own is well-formed UTF-8 (a multi-byte character split across two keys is rejected)
//@ fns: parse_jsonb, Decoder::decode_object, Decoder::decode_scalar, core::str::from_utf8
//@ bounds: keys <= 2 bytes
//@ stubs: drop_in_place -> no-op | core::str::from_utf8 -> specification model (DFA over Unicode table 3-7)
harness!(c10_object_keys_11, 30, object_keys(1, 1));
harness!(c10_object_keys_21, 30, object_keys(2, 1));
harness!(c10_object_keys_12, 30, object_keys(1, 2));

/// every proper prefix of a valid encoding is rejected, by parse_jsonb and by from_slice (whose
/// text fallback must not accept the bytes either)
fn prefixes(d: &B) {
    let k: usize = kani::any();
    kani::assume(k < d.n);
    let mut l = 0;
    while l < d.n {
        if k == l {
            let r = parse_jsonb(&d.b[..l]);
            assert!(r.is_err(), "a proper prefix of a valid encoding is rejected by parse_jsonb");
            let r2 = from_slice(&d.b[..l]);
            assert!(r2.is_err(), "a proper prefix of a valid encoding is rejected by from_slice");
        }
        l += 1;
    }
}
//@ props: C10
//@ timeout: 1800
//@ harness: c10_prefix_a, c10_prefix_b, c10_prefix_c
//@ desc: every proper prefix (truncation at every offset) of the encodings of "s2" (scalar string: the text fallback sees header bytes then the payload), a 9-byte number and [n5,s1] with symbolic payloads (a cut inside a multi-byte number leaves a shorter slice that must not be accepted as a shorter number) is rejected with an error by parse_jsonb and by from_slice (binary decode fails and the text fallback rejects the bytes too)
//@ fns: parse_jsonb, from_slice, Decoder::decode, parse_value, Parser::parse, Parser::skip_unused
//@ bounds: documents <= 40 bytes
//@ stubs: drop_in_place -> no-op | core::str::from_utf8 -> specification model (DFA over Unicode table 3-7)
harness!(c10_prefix_a, 66, prefixes(&B::build(&leaf(K_STR, 2))));
harness!(c10_prefix_b, 66, prefixes(&B::build(&leaf(K_NUM, 9))));
harness!(c10_prefix_c, 66, prefixes(&B::build(&arr(&[leaf(K_NUM, 5), leaf(K_STR, 1)]))));


/// single-byte faults: one byte of a valid encoding replaced by an arbitrary byte, at every offset
fn fault(d: &B) {
    let k: usize = kani::any();
    let v: u8 = kani::any();
    kani::assume(k < d.n);
    let mut l = 0;
    while l < d.n {
        if k == l {
            let mut b = d.b;
            b[l] = v;
            let r = parse_jsonb(&b[..d.n]);
            kani::cover!(r.is_err(), "fault detected");
            kani::cover!(r.is_ok(), "fault tolerated");
            core::mem::forget(r);
        }
        l += 1;
    }
}
//@ props: UNREACHED-C10
//@ timeout: 1800
//@ harness: c10_fault_a, c10_fault_b
//@ desc: byte substitution (hence every bit flip) at every offset of the encodings of [n2,s1] and {k:[null]}: header kind/count bytes, entry type and length bytes and payload bytes each replaced by an arbitrary value: parse_jsonb returns Ok or Err, never panics
//@ fns: parse_jsonb, Decoder::decode
//@ bounds: one faulty byte per run; documents of 15 and 21 bytes
//@ stubs: drop_in_place -> no-op | core::str::from_utf8 -> specification model (DFA over Unicode table 3-7)
harness!(c10_fault_a, 8, fault(&B::build(&arr(&[leaf(K_NUM, 2), leaf(K_STR, 1)]))));
harness!(c10_fault_b, 8, fault(&B::build(&obj(&[1], &[arr(&[leaf(K_NULL, 0)])]))));

/// text is never misread as binary: from_slice hands every input that does not start with a JSONB
/// header byte to the text parser and returns exactly what the text parser returns
pub fn marker_parse_value(_buf: &[u8]) -> Result<Value<'_>, Error> {
    Err(Error::InvalidToken)
}
//@ props: C10
//@ timeout: 900
//@ desc: text is never misread as binary: (1) is_jsonb is true exactly for a first byte 0x20, 0x40 or 0x80 (every buffer of <= 4 bytes); (2) from_slice on inputs of 12 bytes starting with each JSON-text first byte (digits 0 and 7, minus, quote, [, {, t, f, n, tab, LF, CR) followed by 11 arbitrary bytes returns exactly the text parser's result (the text parser is replaced by a marker returning Error::InvalidToken, which no other path produces): such input never reaches the binary decoder
//@ fns: from_slice, is_jsonb
//@ bounds: 12-byte inputs; first byte from the listed JSON-text starters
//@ stubs: parse_value -> marker returning Err(InvalidToken) | drop_in_place -> no-op
#[kani::proof]
#[kani::unwind(5)]
#[kani::stub(crate::parser::parse_value, marker_parse_value)]
#[kani::stub(std::ptr::drop_in_place, noop_drop)]
#[kani::stub(core::str::from_utf8, from_utf8_model)]
fn c10_text_not_binary() {
    let b4: [u8; 4] = kani::any();
    let l4: usize = kani::any();
    kani::assume(l4 <= 4);
    let j = crate::functions::is_jsonb(&b4[..l4]);
    assert!(j == (l4 >= 1 && (b4[0] == 0x20 || b4[0] == 0x40 || b4[0] == 0x80)), "is_jsonb looks at the first byte only");
    const STARTS: [u8; 12] = [b'0', b'7', b'-', b'"', b'[', b'{', b't', b'f', b'n', b'\t', b'\n', b'\r'];
    let rest: [u8; 11] = kani::any();
    let k: usize = kani::any();
    kani::assume(k < 12);
    let mut i = 0;
    while i < 12 {
        if k == i {
            let mut buf = [0u8; 12];
            buf[0] = STARTS[i];
            let mut z = 0;
            while z < 11 {
                buf[1 + z] = rest[z];
                z += 1;
            }
            let r = from_slice(&buf);
            assert!(r == Err(Error::InvalidToken), "text input goes to the text parser, never to the binary decoder");
        }
        i += 1;
    }
}

//@ props: C10
//@ timeout: 300
//@ expect: twin
//@ desc: vacuity twin: a valid string document claimed to be rejected — must be refuted
//@ fns: parse_jsonb
#[kani::proof]
#[kani::unwind(5)]
#[kani::stub(std::ptr::drop_in_place, noop_drop)]
#[kani::stub(core::str::from_utf8, from_utf8_model)]
fn c10_twin_must_fail() {
    let d = B::build(&leaf(K_STR, 1));
    let r = parse_jsonb(d.bytes());
    let bad = r.is_err();
    core::mem::forget(r);
    assert!(bad, "TWIN: deliberately false");
}
