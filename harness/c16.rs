//! C16 — key-path syntax; C09 — JSONPath syntax (shared scanners `string` / `raw_string`).
use super::common::*;
use crate::error::Error;
use crate::jsonpath::*;
use crate::keypath::*;
use std::borrow::Cow;

macro_rules! harness {
    ($name:ident, $unw:expr, $body:expr) => {
        #[kani::proof]
        #[kani::unwind(5)]
        #[kani::stub(std::ptr::drop_in_place, noop_drop)]
        fn $name() {
            $body
        }
    };
}

/// every input of length 0..=N, by case split on the length
fn keypaths_total<const N: usize>() {
    let buf: [u8; N] = kani::any();
    let len: usize = kani::any();
    kani::assume(len <= N);
    let mut l = 0;
    while l <= N {
        if len == l {
            let r = parse_key_paths(&buf[..l]);
            kani::cover!(r.is_ok(), "accepted");
            kani::cover!(r.is_err(), "rejected");
            core::mem::forget(r);
        }
        l += 1;
    }
}
//@ props: UNREACHED-C16
//@ timeout: 1800
//@ harness: c16_total_4
//@ desc: parse_key_paths on every byte string of length 0..=4: Ok or Err(InvalidKeyPath), never a panic (unterminated quotes, missing braces, stray backslashes, non-UTF-8 bytes included)
//@ fns: parse_key_paths, key_paths, key_path, string, raw_string, check_escaped, parse_string
//@ bounds: input length <= 4
//@ stubs: drop_in_place -> no-op
harness!(c16_total_4, 8, keypaths_total::<4>());
//@ props: UNREACHED-C16
//@ tier: thorough
//@ timeout: 3600
//@ harness: c16_total_6
//@ desc: parse_key_paths on every byte string of length 0..=6: never a panic
//@ fns: parse_key_paths
//@ bounds: input length <= 6
//@ stubs: drop_in_place -> no-op
harness!(c16_total_6, 10, keypaths_total::<6>());

/// `{` <body of symbolic bytes> : unterminated or malformed element bodies of every kind never panic
fn keypaths_open<const N: usize>(quote: bool) {
    let mut buf = [0u8; 16];
    let body: [u8; N] = kani::any();
    buf[0] = b'{';
    let mut at = 1;
    if quote {
        buf[1] = b'"';
        at = 2;
    }
    let mut i = 0;
    while i < N {
        buf[at + i] = body[i];
        i += 1;
    }
    let r = parse_key_paths(&buf[..at + N]);
    kani::cover!(r.is_ok(), "accepted");
    kani::cover!(r.is_err(), "rejected");
    core::mem::forget(r);
}
//@ props: UNREACHED-C16, UNREACHED-C09
//@ timeout: 1800
//@ harness: c16_open_quote_5, c16_open_plain_5
//@ desc: `{"` followed by 5 arbitrary bytes and `{` followed by 5 arbitrary bytes (escapes `\\x`, `\\uXXXX`, `\\u{XXXX}` cut off at every point, missing closing quote or brace): an error or a value, never a panic
//@ fns: parse_key_paths, string, raw_string, check_escaped, parse_string, parse_escaped_string
//@ bounds: 5 symbolic bytes after the fixed opening
//@ stubs: drop_in_place -> no-op
harness!(c16_open_quote_5, 12, keypaths_open::<5>(true));
harness!(c16_open_plain_5, 12, keypaths_open::<5>(false));

fn is_ws(c: u8) -> bool {
    c == b' ' || c == b'\t' || c == b'\n' || c == b'\r'
}
fn name_char(c: u8) -> bool {
    // characters a plain name may consist of: no break characters of the grammar, no backslash, ASCII only here
    c > 0x20 && c < 0x7f && !matches!(c, b',' | b'.' | b':' | b'{' | b'}' | b'[' | b']' | b'(' | b')' | b'?' | b'@' | b'$' | b'|' | b'<' | b'>' | b'!' | b'=' | b'+' | b'-' | b'*' | b'/' | b'%' | b'"' | b'\'' | b'\\')
}
/// writer for template inputs
struct W {
    b: [u8; 32],
    n: usize,
}
impl W {
    fn put(&mut self, c: u8) {
        self.b[self.n] = c;
        self.n += 1;
    }
    /// optional whitespace slot: nothing, or one arbitrary whitespace character (case split)
    fn sp(&mut self, on: bool) {
        if on {
            let c: u8 = kani::any();
            kani::assume(is_ws(c));
            self.put(c);
        }
    }
}
/// `{ e1 , e2 }` with every spacing variant; kind: 0 index, 1 quoted name, 2 plain name
fn keypaths_template(k1: usize, k2: usize) {
    let sp: u8 = kani::any(); // bit i: whitespace present in slot i (6 slots)
    kani::assume(sp < 64);
    let neg: bool = kani::any();
    let (d1, d2): (u8, u8) = (kani::any(), kani::any());
    kani::assume(d1 >= b'0' && d1 <= b'9' && d2 >= b'0' && d2 <= b'9');
    let (c1, c2): (u8, u8) = (kani::any(), kani::any());
    kani::assume(name_char(c1) && name_char(c2));
    let mut s = 0u8;
    while s < 64 {
        if sp == s {
            let mut w = W { b: [0; 32], n: 0 };
            w.sp(s & 1 != 0);
            w.put(b'{');
            w.sp(s & 2 != 0);
            let mut e = 0;
            while e < 2 {
                let kind = if e == 0 { k1 } else { k2 };
                match kind {
                    0 => {
                        if neg { w.put(b'-'); }
                        w.put(d1);
                        w.put(d2);
                    }
                    1 => {
                        w.put(b'"');
                        w.put(c1);
                        w.put(c2);
                        w.put(b'"');
                    }
                    _ => {
                        // plain names do not start with a digit or a sign
                        kani::assume(!(c1 >= b'0' && c1 <= b'9'));
                        w.put(c1);
                        w.put(c2);
                    }
                }
                if e == 0 {
                    w.sp(s & 4 != 0);
                    w.put(b',');
                    w.sp(s & 8 != 0);
                }
                e += 1;
            }
            w.sp(s & 16 != 0);
            w.put(b'}');
            w.sp(s & 32 != 0);
            let r = parse_key_paths(&w.b[..w.n]);
            assert!(r.is_ok(), "a brace-delimited list with any spacing is accepted");
            let p = r.unwrap();
            assert!(p.paths.len() == 2, "two elements");
            let v = (d1 - b'0') as i32 * 10 + (d2 - b'0') as i32;
            let mut e = 0;
            while e < 2 {
                let kind = if e == 0 { k1 } else { k2 };
                let ok = match (&p.paths[e], kind) {
                    (KeyPath::Index(i), 0) => *i == if neg { -v } else { v },
                    (KeyPath::QuotedName(n), 1) => n.as_bytes().len() == 2 && n.as_bytes()[0] == c1 && n.as_bytes()[1] == c2,
                    (KeyPath::Name(n), 2) => n.as_bytes().len() == 2 && n.as_bytes()[0] == c1 && n.as_bytes()[1] == c2,
                    _ => false,
                };
                assert!(ok, "a signed integer is an index, a quoted string a quoted name, anything else a plain name");
                e += 1;
            }
            core::mem::forget(p);
        }
        s += 1;
    }
}
//@ props: UNREACHED-C16
//@ timeout: 1800
//@ harness: c16_tmpl_idx_name, c16_tmpl_quoted_idx, c16_tmpl_name_quoted
//@ desc: `{ e1 , e2 }` rendered with every presence pattern of the six whitespace slots (each slot empty or one arbitrary whitespace character) and element kinds index (optional minus, two arbitrary digits) / quoted name (two arbitrary name characters) / plain name: accepted, and the elements are exactly Index(value) / QuotedName(chars) / Name(chars) in order
//@ fns: parse_key_paths, key_paths, key_path, string, raw_string
//@ bounds: two elements; 2-character names; 2-digit indices
//@ stubs: drop_in_place -> no-op
harness!(c16_tmpl_idx_name, 66, keypaths_template(0, 2));
harness!(c16_tmpl_quoted_idx, 66, keypaths_template(1, 0));
harness!(c16_tmpl_name_quoted, 66, keypaths_template(2, 1));

//@ props: UNREACHED-C16
//@ timeout: 900
//@ desc: the empty list `{}` with every spacing, and single elements: the empty quoted name `{""}`, the i32 boundaries `{2147483647}` / `{-2147483648}` (accepted as Index) and `{2147483648}` / `{-2147483649}` (not an index)
//@ fns: parse_key_paths, key_paths, key_path, string
//@ bounds: listed inputs; spacing symbolic
//@ stubs: drop_in_place -> no-op
#[kani::proof]
#[kani::unwind(5)]
#[kani::stub(std::ptr::drop_in_place, noop_drop)]
fn c16_edge_elements() {
    let sp: u8 = kani::any();
    kani::assume(sp < 8);
    let mut s = 0u8;
    while s < 8 {
        if sp == s {
            let mut w = W { b: [0; 32], n: 0 };
            w.sp(s & 1 != 0);
            w.put(b'{');
            w.sp(s & 2 != 0);
            w.put(b'}');
            w.sp(s & 4 != 0);
            let r = parse_key_paths(&w.b[..w.n]);
            assert!(r.is_ok() && r.as_ref().unwrap().paths.is_empty(), "the empty list is the empty path");
            core::mem::forget(r);
        }
        s += 1;
    }
    let r = parse_key_paths(b"{\"\"}");
    assert!(matches!(r.as_ref().map(|p| &p.paths[..]), Ok([KeyPath::QuotedName(n)]) if n.is_empty()), "the empty quoted name is accepted");
    core::mem::forget(r);
    let r = parse_key_paths(b"{2147483647,-2147483648}");
    assert!(matches!(r.as_ref().map(|p| &p.paths[..]), Ok([KeyPath::Index(2147483647), KeyPath::Index(-2147483648)])), "i32 boundaries are indices");
    core::mem::forget(r);
    let r = parse_key_paths(b"{2147483648}");
    assert!(!matches!(r.as_ref().map(|p| &p.paths[..]), Ok([KeyPath::Index(_)])), "beyond i32 is not an index");
    core::mem::forget(r);
}

//@ props: UNREACHED-C16
//@ timeout: 300
//@ expect: twin
//@ desc: vacuity twin: every 4-byte input claimed to be rejected — must be refuted
//@ fns: parse_key_paths
#[kani::proof]
#[kani::unwind(5)]
#[kani::stub(std::ptr::drop_in_place, noop_drop)]
fn c16_twin_must_fail() {
    let buf: [u8; 4] = kani::any();
    let r = parse_key_paths(&buf);
    let bad = r.is_err();
    core::mem::forget(r);
    assert!(bad, "TWIN: deliberately false");
}
