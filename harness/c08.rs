//! C08 — JSONPath evaluation returns exactly the items the path denotes.
//! C15 — selection modes and predicates are mutually consistent (relational checks on the same runs).
//! Path ASTs are constructed directly (no parser): independent of C09.
use super::bdoc::*;
use super::common::*;
use crate::jsonpath::*;
use crate::number::Number;
use core::cmp::Ordering;
use std::borrow::Cow;

macro_rules! harness {
    ($name:ident, $body:expr) => {
        #[kani::proof]
        #[kani::unwind(13)]
        #[kani::stub(crate::parser::parse_value, no_parse_value)]
        #[kani::stub(crate::de::from_slice, no_from_slice)]
        #[kani::stub(std::ptr::drop_in_place, noop_drop)]
        fn $name() {
            $body
        }
    };
}

pub const LCAP: usize = 8;
/// ordered list of selected nodes (with repetitions)
#[derive(Clone, Copy)]
pub struct L {
    pub ids: [usize; LCAP],
    pub n: usize,
}
impl L {
    pub fn new() -> L {
        L { ids: [0; LCAP], n: 0 }
    }
    pub fn one(id: usize) -> L {
        let mut l = L::new();
        l.push(id);
        l
    }
    pub fn push(&mut self, id: usize) {
        // symbolic n: write through a scan so the store index stays concrete
        let mut i = 0;
        while i < LCAP {
            if i == self.n {
                self.ids[i] = id;
            }
            i += 1;
        }
        self.n += 1;
    }
    pub fn get(&self, k: usize) -> usize {
        let mut r = 0;
        let mut i = 0;
        while i < LCAP {
            if i == k {
                r = self.ids[i];
            }
            i += 1;
        }
        r
    }
}

/// documented meaning of one non-filter step applied to every current item, in order
pub fn step_wild_dot(d: &B, cur: &L) -> L {
    let mut o = L::new();
    let mut c = 0;
    while c < LCAP {
        if c < cur.n {
            let x = d.node(cur.get(c));
            if x.kind == K_OBJ {
                let mut i = 0;
                while i < x.cnt {
                    o.push(x.kids[i]);
                    i += 1;
                }
            }
        }
        c += 1;
    }
    o
}
/// `[*]`: elements of an array; a non-array passes through unchanged (lax mode)
pub fn step_wild_bracket(d: &B, cur: &L) -> L {
    let mut o = L::new();
    let mut c = 0;
    while c < LCAP {
        if c < cur.n {
            let id = cur.get(c);
            let x = d.node(id);
            if x.kind == K_ARR {
                let mut i = 0;
                while i < x.cnt {
                    o.push(x.kids[i]);
                    i += 1;
                }
            } else {
                o.push(id);
            }
        }
        c += 1;
    }
    o
}
pub fn step_field(d: &B, cur: &L, name: &Name) -> L {
    let mut o = L::new();
    let mut c = 0;
    while c < LCAP {
        if c < cur.n {
            let x = d.node(cur.get(c));
            if x.kind == K_OBJ {
                let mut i = 0;
                while i < x.cnt {
                    if name.eq_key(d, x.koff[i], x.klen[i]) {
                        o.push(x.kids[i]);
                    }
                    i += 1;
                }
            }
        }
        c += 1;
    }
    o
}
fn resolve(ix: &Index, len: i64) -> i64 {
    match ix {
        Index::Index(i) => *i as i64,
        Index::LastIndex(k) => len - 1 + *k as i64,
    }
}
/// `[spec, ...]` on arrays: each spec in order; an index selects the element if it exists, a range
/// `a to b` selects every existing element with a <= position <= b
pub fn step_indices(d: &B, cur: &L, specs: &[ArrayIndex]) -> L {
    let mut o = L::new();
    let mut c = 0;
    while c < LCAP {
        if c < cur.n {
            let x = d.node(cur.get(c));
            if x.kind == K_ARR {
                let len = x.cnt as i64;
                let mut s = 0;
                while s < specs.len() {
                    let (lo, hi) = match &specs[s] {
                        ArrayIndex::Index(i) => { let v = resolve(i, len); (v, v) }
                        ArrayIndex::Slice((a, b)) => (resolve(a, len), resolve(b, len)),
                    };
                    let mut i = 0;
                    while i < x.cnt {
                        if lo <= i as i64 && i as i64 <= hi {
                            o.push(x.kids[i]);
                        }
                        i += 1;
                    }
                    s += 1;
                }
            }
        }
        c += 1;
    }
    o
}

/// run the selector in the given mode; returns (data, offsets)
pub fn run(d: &B, jp: &JsonPath, mode: Mode) -> (Vec<u8>, Vec<u64>) {
    let sel = Selector::new(jp.clone(), mode);
    let mut data = Vec::new();
    let mut offs = Vec::new();
    let r = sel.select(d.bytes(), &mut data, &mut offs);
    assert!(r.is_ok(), "evaluating an accepted path on a valid document is Ok");
    core::mem::forget(sel);
    (data, offs)
}

/// All-mode output == the expected items, one canonical document each, delimited by the offsets
pub fn check_all(d: &B, jp: &JsonPath, want: &L) {
    let (data, offs) = run(d, jp, Mode::All);
    assert!(offs.len() == want.n, "exactly the denoted number of items, with repetitions");
    let mut start = 0usize;
    let mut k = 0;
    while k < LCAP {
        if k < want.n {
            let end = offs[k] as usize;
            assert!(end >= start && end <= data.len(), "offsets delimit the items");
            let id = want.get(k);
            // id is symbolic among <= MAXN nodes: compare against each candidate with concrete layout
            let mut c = 0;
            while c < d.nn {
                if id == c {
                    let (e, n) = d.sub_doc(c);
                    assert!(same(&data[start..end], &e, n), "each item is the canonical encoding of the denoted sub-value, in document order");
                }
                c += 1;
            }
            start = end;
        }
        k += 1;
    }
    assert!(start == data.len(), "nothing trails the last item");
    // C15: the other modes and exists agree with all-mode
    let sel = Selector::new(jp.clone(), Mode::Mixed);
    assert!(sel.exists(d.bytes()) == Ok(want.n > 0), "exists is true exactly when all-mode returns something");
    core::mem::forget(sel);
    let (fdata, foffs) = run(d, jp, Mode::First);
    if want.n == 0 {
        assert!(fdata.is_empty() && foffs.is_empty(), "first-mode returns nothing when all-mode returns nothing");
    } else {
        let e0 = offs[0] as usize;
        assert!(foffs.len() == 1 && foffs[0] as usize == e0 && fdata.len() == e0, "first-mode returns one item");
        let mut i = 0;
        while i < XCAP {
            if i < e0 {
                assert!(fdata[i] == data[i], "first-mode returns the first all-mode item");
            }
            i += 1;
        }
    }
    core::mem::forget(fdata);
    core::mem::forget(foffs);
    core::mem::forget(data);
    core::mem::forget(offs);
}

/// array-mode: one array holding exactly the all-mode items; mixed-mode: array-mode for >= 2 items, all-mode otherwise
pub fn check_array_mixed(d: &B, jp: &JsonPath, want: &L) {
    let (adata, aoffs) = run(d, jp, Mode::Array);
    let (mdata, moffs) = run(d, jp, Mode::Mixed);
    let (data, offs) = run(d, jp, Mode::All);
    // expected array built from the expected items (case split on the count keeps the layout concrete)
    let mut n = 0;
    while n <= 3 {
        if want.n == n {
            let mut items = [Blob { tag: 0, b: [0; XCAP], n: 0 }; 3];
            let mut k = 0;
            while k < n {
                let id = want.get(k);
                let mut c = 0;
                while c < d.nn {
                    if id == c {
                        items[k] = d.blob(c);
                    }
                    c += 1;
                }
                k += 1;
            }
            let e = x_arr(&items[..n]);
            assert!(same_blob(&adata, &e), "array-mode returns one array holding exactly the all-mode items");
            assert!(aoffs.len() == 1 && aoffs[0] as usize == adata.len(), "array-mode reports one item");
            if n >= 2 {
                assert!(same_blob(&mdata, &e) && moffs.len() == 1, "mixed-mode equals array-mode for two or more items");
            } else {
                assert!(mdata.len() == data.len() && moffs.len() == offs.len(), "mixed-mode equals all-mode for fewer than two items");
                let mut i = 0;
                while i < XCAP {
                    if i < data.len() {
                        assert!(mdata[i] == data[i], "mixed-mode equals all-mode for fewer than two items");
                    }
                    i += 1;
                }
            }
        }
        n += 1;
    }
    kani::assume(want.n <= 3);
    core::mem::forget((adata, aoffs, mdata, moffs, data, offs));
}

fn field(n: &Name, form: usize) -> Path<'_> {
    match form {
        0 => Path::DotField(Cow::Borrowed(n.as_str())),
        1 => Path::ColonField(Cow::Borrowed(n.as_str())),
        _ => Path::ObjectField(Cow::Borrowed(n.as_str())),
    }
}
fn any_index() -> Index {
    if kani::any() { Index::Index(kani::any()) } else { Index::LastIndex(kani::any()) }
}

// ---- single steps on the shape catalogue
fn one_step(d: &B, which: usize) {
    let root = L::one(d.root);
    let name = Name::of_len(1);
    let (i0, i1) = (any_index(), any_index());
    let (step, want) = match which {
        0 => (Path::DotWildcard, step_wild_dot(d, &root)),
        1 => (Path::BracketWildcard, step_wild_bracket(d, &root)),
        2 => (field(&name, 0), step_field(d, &root, &name)),
        3 => { let s = vec![ArrayIndex::Index(i0.clone())]; let w = step_indices(d, &root, &s); (Path::ArrayIndices(s), w) }
        4 => { let s = vec![ArrayIndex::Slice((i0.clone(), i1.clone()))]; let w = step_indices(d, &root, &s); (Path::ArrayIndices(s), w) }
        _ => { let s = vec![ArrayIndex::Index(i0.clone()), ArrayIndex::Index(i1.clone())]; let w = step_indices(d, &root, &s); (Path::ArrayIndices(s), w) }
    };
    kani::assume(want.n <= LCAP);
    let jp = JsonPath { paths: vec![Path::Root, step] };
    check_all(d, &jp, &want);
    kani::cover!(want.n >= 2, "several items");
    kani::cover!(want.n == 0, "no item");
    core::mem::forget(jp);
}
//@ props: C08, C15
//@ timeout: 1200
//@ harness: c08_step_dotwild, c08_step_brwild, c08_step_field, c08_step_index, c08_step_slice, c08_step_indexlist
//@ desc: single steps after the root on [x,y,s], [[x],y], {k:x,kk:y}, scalar x, [], {} (x,y case-split over classes): `.*`, `[*]` (non-arrays pass through), `.name` (symbolic 1-byte name), `[i]`, `[a to b]`, `[i,j]` with every index an arbitrary i32 in plain or last+k form; all-mode output is exactly the denoted items in order, each a canonical document, delimited by the offsets; first-mode and exists agree (C15)
//@ fns: Selector::select, Selector::find_positions, Selector::select_path, Selector::select_object_values, Selector::select_array_values, Selector::select_by_name, Selector::select_by_indices, Selector::convert_index, Selector::convert_slice, Selector::build_values, Selector::exists
//@ bounds: documents depth 2, <= 3 children; one step; indices unbounded i32
//@ stubs: parse_value, from_slice -> panic | drop_in_place -> no-op
fn shapes6(f: impl Fn(&B)) {
    split1(6, |k| shapes_split([0, 1, 3, 5, 6, 7][k], &CLS_T, 2, |d| f(d)));
}
harness!(c08_step_dotwild, shapes6(|d| one_step(d, 0)));
harness!(c08_step_brwild, shapes6(|d| one_step(d, 1)));
harness!(c08_step_field, shapes6(|d| one_step(d, 2)));
harness!(c08_step_index, shapes6(|d| one_step(d, 3)));
harness!(c08_step_slice, shapes6(|d| one_step(d, 4)));
harness!(c08_step_indexlist, shapes6(|d| one_step(d, 5)));
