//! C08 — JSONPath evaluation returns exactly the items the path denotes.
//! C15 — selection modes and predicates are mutually consistent (relational checks on the same runs).
//! Path ASTs are constructed directly (no parser): independent of C09.
use super::bdoc::*;
use super::common::*;
use crate::jsonpath::*;
use crate::number::Number;
use core::cmp::Ordering;
use std::borrow::Cow;

macro_rules! harness {
    ($name:ident, $body:expr) => {
        #[kani::proof]
        #[kani::unwind(5)]
        #[kani::stub(crate::parser::parse_value, no_parse_value)]
        #[kani::stub(crate::de::from_slice, no_from_slice)]
        #[kani::stub(std::ptr::drop_in_place, noop_drop)]
        fn $name() {
            $body
        }
    };
}

pub const LCAP: usize = 8;
/// ordered list of selected nodes (with repetitions)
#[derive(Clone, Copy)]
pub struct L {
    pub ids: [usize; LCAP],
    pub n: usize,
}
impl L {
    pub fn new() -> L {
        L { ids: [0; LCAP], n: 0 }
    }
    pub fn one(id: usize) -> L {
        let mut l = L::new();
        l.push(id);
        l
    }
    pub fn push(&mut self, id: usize) {
        // symbolic n: write through a scan so the store index stays concrete
        let mut i = 0;
        while i < LCAP {
            if i == self.n {
                self.ids[i] = id;
            }
            i += 1;
        }
        self.n += 1;
    }
    pub fn get(&self, k: usize) -> usize {
        let mut r = 0;
        let mut i = 0;
        while i < LCAP {
            if i == k {
                r = self.ids[i];
            }
            i += 1;
        }
        r
    }
}

/// documented meaning of one non-filter step applied to every current item, in order
pub fn step_wild_dot(d: &B, cur: &L) -> L {
    let mut o = L::new();
    let mut c = 0;
    while c < LCAP {
        if c < cur.n {
            let x = d.node(cur.get(c));
            if x.kind == K_OBJ {
                let mut i = 0;
                while i < x.cnt {
                    o.push(x.kids[i]);
                    i += 1;
                }
            }
        }
        c += 1;
    }
    o
}
/// `[*]`: elements of an array; a non-array passes through unchanged (lax mode)
pub fn step_wild_bracket(d: &B, cur: &L) -> L {
    let mut o = L::new();
    let mut c = 0;
    while c < LCAP {
        if c < cur.n {
            let id = cur.get(c);
            let x = d.node(id);
            if x.kind == K_ARR {
                let mut i = 0;
                while i < x.cnt {
                    o.push(x.kids[i]);
                    i += 1;
                }
            } else {
                o.push(id);
            }
        }
        c += 1;
    }
    o
}
pub fn step_field(d: &B, cur: &L, name: &Name) -> L {
    let mut o = L::new();
    let mut c = 0;
    while c < LCAP {
        if c < cur.n {
            let x = d.node(cur.get(c));
            if x.kind == K_OBJ {
                let mut i = 0;
                while i < x.cnt {
                    if name.eq_key(d, x.koff[i], x.klen[i]) {
                        o.push(x.kids[i]);
                    }
                    i += 1;
                }
            }
        }
        c += 1;
    }
    o
}
fn resolve(ix: &Index, len: i64) -> i64 {
    match ix {
        Index::Index(i) => *i as i64,
        Index::LastIndex(k) => len - 1 + *k as i64,
    }
}
/// `[spec, ...]` on arrays: each spec in order; an index selects the element if it exists, a range
/// `a to b` selects every existing element with a <= position <= b
pub fn step_indices(d: &B, cur: &L, specs: &[ArrayIndex]) -> L {
    let mut o = L::new();
    let mut c = 0;
    while c < LCAP {
        if c < cur.n {
            let x = d.node(cur.get(c));
            if x.kind == K_ARR {
                let len = x.cnt as i64;
                let mut s = 0;
                while s < specs.len() {
                    let (lo, hi) = match &specs[s] {
                        ArrayIndex::Index(i) => { let v = resolve(i, len); (v, v) }
                        ArrayIndex::Slice((a, b)) => (resolve(a, len), resolve(b, len)),
                    };
                    let mut i = 0;
                    while i < x.cnt {
                        if lo <= i as i64 && i as i64 <= hi {
                            o.push(x.kids[i]);
                        }
                        i += 1;
                    }
                    s += 1;
                }
            }
        }
        c += 1;
    }
    o
}

/// run the selector in the given mode; returns (data, offsets)
pub fn run(d: &B, jp: &JsonPath, mode: Mode) -> (Vec<u8>, Vec<u64>) {
    let sel = Selector::new(jp.clone(), mode);
    let mut data = Vec::new();
    let mut offs = Vec::new();
    let r = sel.select(d.bytes(), &mut data, &mut offs);
    assert!(r.is_ok(), "evaluating an accepted path on a valid document is Ok");
    core::mem::forget(sel);
    (data, offs)
}

/// All-mode output == the expected items, one canonical document each, delimited by the offsets
pub fn check_all(d: &B, jp: &JsonPath, want: &L) {
    let (data, offs) = run(d, jp, Mode::All);
    assert!(offs.len() == want.n, "exactly the denoted number of items, with repetitions");
    let mut start = 0usize;
    let mut k = 0;
    while k < LCAP {
        if k < want.n {
            let end = offs[k] as usize;
            assert!(end >= start && end <= data.len(), "offsets delimit the items");
            let id = want.get(k);
            // id is symbolic among <= MAXN nodes: compare against each candidate with concrete layout
            let mut c = 0;
            while c < d.nn {
                if id == c {
                    let (e, n) = d.sub_doc(c);
                    assert!(same(&data[start..end], &e, n), "each item is the canonical encoding of the denoted sub-value, in document order");
                }
                c += 1;
            }
            start = end;
        }
        k += 1;
    }
    assert!(start == data.len(), "nothing trails the last item");
    // C15: the other modes and exists agree with all-mode
    let sel = Selector::new(jp.clone(), Mode::Mixed);
    assert!(sel.exists(d.bytes()) == Ok(want.n > 0), "exists is true exactly when all-mode returns something");
    core::mem::forget(sel);
    let (fdata, foffs) = run(d, jp, Mode::First);
    if want.n == 0 {
        assert!(fdata.is_empty() && foffs.is_empty(), "first-mode returns nothing when all-mode returns nothing");
    } else {
        let e0 = offs[0] as usize;
        assert!(foffs.len() == 1 && foffs[0] as usize == e0 && fdata.len() == e0, "first-mode returns one item");
        let mut i = 0;
        while i < XCAP {
            if i < e0 {
                assert!(fdata[i] == data[i], "first-mode returns the first all-mode item");
            }
            i += 1;
        }
    }
    core::mem::forget(fdata);
    core::mem::forget(foffs);
    core::mem::forget(data);
    core::mem::forget(offs);
}

/// array-mode: one array holding exactly the all-mode items; mixed-mode: array-mode for >= 2 items, all-mode otherwise
pub fn check_array_mixed(d: &B, jp: &JsonPath, want: &L) {
    let (adata, aoffs) = run(d, jp, Mode::Array);
    let (mdata, moffs) = run(d, jp, Mode::Mixed);
    let (data, offs) = run(d, jp, Mode::All);
    // expected array built from the expected items (case split on the count keeps the layout concrete)
    let mut n = 0;
    while n <= 3 {
        if want.n == n {
            let mut items = [Blob { tag: 0, b: [0; XCAP], n: 0 }; 3];
            let mut k = 0;
            while k < n {
                let id = want.get(k);
                let mut c = 0;
                while c < d.nn {
                    if id == c {
                        items[k] = d.blob(c);
                    }
                    c += 1;
                }
                k += 1;
            }
            let e = x_arr(&items[..n]);
            assert!(same_blob(&adata, &e), "array-mode returns one array holding exactly the all-mode items");
            assert!(aoffs.len() == 1 && aoffs[0] as usize == adata.len(), "array-mode reports one item");
            if n >= 2 {
                assert!(same_blob(&mdata, &e) && moffs.len() == 1, "mixed-mode equals array-mode for two or more items");
            } else {
                assert!(mdata.len() == data.len() && moffs.len() == offs.len(), "mixed-mode equals all-mode for fewer than two items");
                let mut i = 0;
                while i < XCAP {
                    if i < data.len() {
                        assert!(mdata[i] == data[i], "mixed-mode equals all-mode for fewer than two items");
                    }
                    i += 1;
                }
            }
        }
        n += 1;
    }
    kani::assume(want.n <= 3);
    core::mem::forget((adata, aoffs, mdata, moffs, data, offs));
}

fn field(n: &Name, form: usize) -> Path<'_> {
    match form {
        0 => Path::DotField(Cow::Borrowed(n.as_str())),
        1 => Path::ColonField(Cow::Borrowed(n.as_str())),
        _ => Path::ObjectField(Cow::Borrowed(n.as_str())),
    }
}

// ---- single steps on the shape catalogue
/// index operands by case split: plain i in lo..=hi and last+k for k in lo-len+1.. (every position from
/// below the start to beyond the end, in both notations); constant on each path
const IDX: [(bool, i32); 11] = [(false, -1), (false, 0), (false, 1), (false, 2), (false, 3), (false, 4), (true, -3), (true, -2), (true, -1), (true, 0), (true, 1)];
fn index_of(k: usize) -> Index {
    if IDX[k].0 { Index::LastIndex(IDX[k].1) } else { Index::Index(IDX[k].1) }
}
fn wild_or_field(d: &B, which: usize) {
    let root = L::one(d.root);
    let name = Name::of_len(1);
    let (step, want) = match which {
        0 => (Path::DotWildcard, step_wild_dot(d, &root)),
        1 => (Path::BracketWildcard, step_wild_bracket(d, &root)),
        _ => (field(&name, 0), step_field(d, &root, &name)),
    };
    let jp = JsonPath { paths: vec![Path::Root, step] };
    check_all(d, &jp, &want);
    core::mem::forget(jp);
}
fn index_step(d: &B, which: usize, n: usize) {
    let root = L::one(d.root);
    split2(n, if which == 0 { 1 } else { n }, |a, b| {
        let (i0, i1) = (index_of(a), index_of(b));
        let s = match which {
            0 => vec![ArrayIndex::Index(i0)],
            1 => vec![ArrayIndex::Slice((i0, i1))],
            _ => vec![ArrayIndex::Index(i0), ArrayIndex::Index(i1)],
        };
        let want = step_indices(d, &root, &s);
        let jp = JsonPath { paths: vec![Path::Root, Path::ArrayIndices(s)] };
        check_all(d, &jp, &want);
        core::mem::forget(jp);
    });
}
//@ props: UNREACHED-C08, UNREACHED-C15
//@ timeout: 1800
//@ harness: c08_step_dotwild, c08_step_brwild, c08_step_field, c08_step_index, c08_step_slice, c08_step_indexlist
//@ desc: single steps after the root: `.*`, `[*]` (non-arrays pass through), `.name` (symbolic 1-byte name) on [x,y,s], [[x],y], {k:x,kk:y}, scalar x, [], {}; `[i]`, `[a to b]`, `[i,j]` on [n,s,s'], [[s],n] and [] with every index operand from {-1..=4} and {last-3..=last+1} by case split (all positions from before the start to beyond the end, both notations): all-mode output is exactly the denoted items in order (with repetitions for lists), each a canonical document, delimited by the offsets; first-mode and exists agree (C15)
//@ fns: Selector::select, Selector::find_positions, Selector::select_path, Selector::select_object_values, Selector::select_array_values, Selector::select_by_name, Selector::select_by_indices, Selector::convert_index, Selector::convert_slice, Selector::build_values, Selector::exists
//@ bounds: documents depth 2, <= 3 children; one step; index operands -1..=4 / last-3..=last+1 (extreme offsets: C20)
//@ stubs: parse_value, from_slice -> panic | drop_in_place -> no-op
fn shapes6(f: impl Fn(&B)) {
    split1(6, |k| with_shape([0, 1, 3, 5, 6, 7][k], (K_NUM, 2), (K_STR, 1), |d| f(d)));
}
fn shapes3(f: impl Fn(&B)) {
    split1(3, |k| with_shape([0, 1, 6][k], (K_NUM, 2), (K_STR, 1), |d| f(d)));
}
harness!(c08_step_dotwild, shapes6(|d| wild_or_field(d, 0)));
harness!(c08_step_brwild, shapes6(|d| wild_or_field(d, 1)));
harness!(c08_step_field, shapes6(|d| wild_or_field(d, 2)));
harness!(c08_step_index, shapes3(|d| index_step(d, 0, 11)));
harness!(c08_step_slice, with_shape(0, (K_NUM, 2), (K_STR, 1), |d| index_step(d, 1, 7)));
harness!(c08_step_indexlist, with_shape(0, (K_NUM, 2), (K_STR, 1), |d| index_step(d, 2, 5)));
//@ props: UNREACHED-C08, UNREACHED-C15
//@ tier: thorough
//@ timeout: 7200
//@ harness: c08_step_slice_full, c08_step_slice_nested
//@ desc: `[a to b]` with all 11x11 operand pairs on [n,s,s'] and on [[s],n]
//@ fns: Selector::select_by_indices, Selector::convert_slice
//@ bounds: as above
//@ stubs: parse_value, from_slice -> panic | drop_in_place -> no-op
harness!(c08_step_slice_full, with_shape(0, (K_NUM, 2), (K_STR, 1), |d| index_step(d, 1, 11)));
harness!(c08_step_slice_nested, with_shape(1, (K_STR, 1), (K_NUM, 2), |d| index_step(d, 1, 11)));

// ---- two steps
fn two_steps(d: &B, which: usize, ik: usize) {
    let root = L::one(d.root);
    let name = Name::of_len(1);
    let i0 = index_of(ik);
    let (s1, s2, want) = match which {
        // $.*[*]
        0 => { let a = step_wild_dot(d, &root); (Path::DotWildcard, Path::BracketWildcard, step_wild_bracket(d, &a)) }
        // $[*].name
        1 => { let a = step_wild_bracket(d, &root); (Path::BracketWildcard, field(&name, 1), step_field(d, &a, &name)) }
        // $["name"][i]
        2 => { let a = step_field(d, &root, &name); let s = vec![ArrayIndex::Index(i0.clone())]; let w = step_indices(d, &a, &s); (field(&name, 2), Path::ArrayIndices(s), w) }
        // $[*][*]
        _ => { let a = step_wild_bracket(d, &root); (Path::BracketWildcard, Path::BracketWildcard, step_wild_bracket(d, &a)) }
    };
    let jp = JsonPath { paths: vec![Path::Root, s1, s2] };
    check_all(d, &jp, &want);
    kani::cover!(want.n >= 1, "some item");
    core::mem::forget(jp);
}
//@ props: UNREACHED-C08, UNREACHED-C15
//@ timeout: 1200
//@ harness: c08_two_0, c08_two_1, c08_two_2, c08_two_3
//@ desc: two steps after the root: `$.*[*]`, `$[*]:name`, `$["name"][i]`, `$[*][*]` on [[x],y], [x,{k:y},n], {"":x,k:[y]}, {a:{j:x},b:y,cc:null}: each step applies to every item produced by the previous one, in order
//@ fns: Selector::select, Selector::find_positions, Selector::select_path, Selector::build_values
//@ bounds: documents depth 2; two steps
//@ stubs: parse_value, from_slice -> panic | drop_in_place -> no-op
fn shapes4(f: impl Fn(&B)) {
    split1(4, |k| with_shape([1, 2, 4, 8][k], (K_NUM, 2), (K_STR, 1), |d| f(d)));
}
harness!(c08_two_0, shapes4(|d| two_steps(d, 0, 0)));
harness!(c08_two_1, shapes4(|d| two_steps(d, 1, 0)));
harness!(c08_two_2, split1(2, |k| with_shape([4, 8][k], (K_NUM, 2), (K_STR, 1), |d| split1(11, |ik| two_steps(d, 2, ik)))));
harness!(c08_two_3, shapes4(|d| two_steps(d, 3, 0)));

// ---- filters
fn any_num() -> Number {
    any_number()
}
fn op_of(k: usize) -> BinaryOperator {
    match k {
        0 => BinaryOperator::Eq,
        1 => BinaryOperator::NotEq,
        2 => BinaryOperator::Lt,
        3 => BinaryOperator::Lte,
        4 => BinaryOperator::Gt,
        _ => BinaryOperator::Gte,
    }
}
fn holds(k: usize, o: Ordering) -> bool {
    match k {
        0 => o == Ordering::Equal,
        1 => o != Ordering::Equal,
        2 => o == Ordering::Less,
        3 => o != Ordering::Greater,
        4 => o == Ordering::Greater,
        _ => o != Ordering::Less,
    }
}
fn cur() -> Box<Expr<'static>> {
    Box::new(Expr::Paths(vec![Path::Current]))
}
fn lit_num(n: &Number) -> Box<Expr<'static>> {
    Box::new(Expr::Value(Box::new(PathValue::Number(n.clone()))))
}
fn cmp_expr<'a>(k: usize, l: Box<Expr<'a>>, r: Box<Expr<'a>>) -> Expr<'a> {
    Expr::BinaryOp { op: op_of(k), left: l, right: r }
}

/// $[*]?(@ OP lit) on an array of numbers: keep exactly the elements e with e OP lit by numeric value
fn filter_numbers(opk: usize, lit_left: bool) {
    let d = B::build(&arr(&[leaf(K_NUM, 2), leaf(K_NUM, 9), leaf(K_NUM, 1)]));
    let lit = any_num();
    let root = d.node(d.root);
    let mut want = L::new();
    let mut i = 0;
    while i < root.cnt {
        let e = d.num(&d.node(root.kids[i]));
        let o = if lit_left { lit.cmp(&e) } else { e.cmp(&lit) };
        if holds(opk, o) {
            want.push(root.kids[i]);
        }
        i += 1;
    }
    let e = if lit_left { cmp_expr(opk, lit_num(&lit), cur()) } else { cmp_expr(opk, cur(), lit_num(&lit)) };
    let jp = JsonPath { paths: vec![Path::Root, Path::BracketWildcard, Path::FilterExpr(Box::new(e))] };
    check_all(&d, &jp, &want);
    kani::cover!(want.n == 1, "kept one, dropped others");
    kani::cover!(want.n == 3, "kept all");
    core::mem::forget(jp);
}
//@ props: UNREACHED-C08, UNREACHED-C15
//@ timeout: 1800
//@ harness: c08_filter_num_eq, c08_filter_num_ne, c08_filter_num_lt, c08_filter_num_le, c08_filter_num_gt, c08_filter_num_ge, c08_filter_num_litleft
//@ desc: `$[*]?(@ OP lit)` for each of the six comparison operators (and `lit OP @`) on an array of three numbers of encoded widths 2, 9 and 1 with an arbitrary number literal (any representation and value): exactly the elements whose numeric value satisfies the comparison are kept, in order (numbers by Number::cmp, proved exact in C18)
//@ fns: Selector::select, Selector::filter_expr, Selector::convert_expr_val, Selector::compare, Selector::compare_value, PathValue::partial_cmp, Selector::build_values
//@ bounds: 3 elements; literal unbounded
//@ stubs: parse_value, from_slice -> panic | drop_in_place -> no-op
harness!(c08_filter_num_eq, filter_numbers(0, false));
harness!(c08_filter_num_ne, filter_numbers(1, false));
harness!(c08_filter_num_lt, filter_numbers(2, false));
harness!(c08_filter_num_le, filter_numbers(3, false));
harness!(c08_filter_num_gt, filter_numbers(4, false));
harness!(c08_filter_num_ge, filter_numbers(5, false));
harness!(c08_filter_num_litleft, filter_numbers(2, true));

fn lit_str(n: &Name) -> Box<Expr<'_>> {
    Box::new(Expr::Value(Box::new(PathValue::String(Cow::Borrowed(n.as_str())))))
}
/// $[*]?(@ OP "lit") on an array of strings (lengths 1, 2, 0) and a nested array (never a scalar operand)
fn filter_strings(opk: usize) {
    let d = B::build(&arr(&[leaf(K_STR, 1), leaf(K_STR, 2), arr(&[leaf(K_STR, 1)]), leaf(K_STR, 0)]));
    let lit = Name::of_len(1);
    let root = d.node(d.root);
    let mut want = L::new();
    let mut i = 0;
    while i < root.cnt {
        let e = d.node(root.kids[i]);
        if e.kind == K_STR {
            let mut lb = [0u8; CAP];
            lb[0] = lit.b[0];
            let o = cmp_at(&d.b, e.off, e.len, &lb, 0, 1);
            if holds(opk, o) {
                want.push(root.kids[i]);
            }
        }
        i += 1;
    }
    let e = cmp_expr(opk, cur(), lit_str(&lit));
    let jp = JsonPath { paths: vec![Path::Root, Path::BracketWildcard, Path::FilterExpr(Box::new(e))] };
    check_all(&d, &jp, &want);
    kani::cover!(want.n == 2, "kept two");
    core::mem::forget(jp);
}
//@ props: UNREACHED-C08, UNREACHED-C15
//@ timeout: 1800
//@ harness: c08_filter_str_eq, c08_filter_str_lt, c08_filter_str_ge
//@ desc: `$[*]?(@ OP "s")` on ["a","bc",["d"],""] with a symbolic 1-byte literal: strings compare bytewise (shorter prefix first); a container element offers no operand value and is dropped
//@ fns: Selector::filter_expr, Selector::convert_expr_val, Selector::compare_value, PathValue::partial_cmp
//@ bounds: 4 elements, strings <= 2 bytes
//@ stubs: parse_value, from_slice -> panic | drop_in_place -> no-op
harness!(c08_filter_str_eq, filter_strings(0));
harness!(c08_filter_str_lt, filter_strings(2));
harness!(c08_filter_str_ge, filter_strings(5));

/// objects in an array filtered on a member: $[*]?(@.k OP lit), with &&, || and exists
fn filter_members(which: usize) {
    // [{k:n2, j:s1}, {k:n9}, n1]; key k has length 1, j length 2
    let d = B::build(&arr(&[obj(&[1, 2], &[leaf(K_NUM, 2), leaf(K_STR, 1)]), obj(&[1], &[leaf(K_NUM, 2)]), leaf(K_NUM, 1)]));
    let root = d.node(d.root);
    let name = Name::of_len(1);
    let (l1, l2) = (any_num(), any_num());
    let member = |id: usize| -> Option<Number> {
        let x = d.node(id);
        if x.kind != K_OBJ {
            return None;
        }
        let mut r = None;
        let mut i = 0;
        while i < x.cnt {
            if name.eq_key(&d, x.koff[i], x.klen[i]) && d.node(x.kids[i]).kind == K_NUM {
                r = Some(d.num(&d.node(x.kids[i])));
            }
            i += 1;
        }
        r
    };
    let has_member = |id: usize| -> bool {
        let x = d.node(id);
        let mut r = false;
        if x.kind == K_OBJ {
            let mut i = 0;
            while i < x.cnt {
                if name.eq_key(&d, x.koff[i], x.klen[i]) {
                    r = true;
                }
                i += 1;
            }
        }
        r
    };
    let at_k = || Box::new(Expr::Paths(vec![Path::Current, Path::DotField(Cow::Borrowed(name.as_str()))]));
    let mut want = L::new();
    let mut i = 0;
    while i < root.cnt {
        let id = root.kids[i];
        let m = member(id);
        let keep = match which {
            0 => m.map_or(false, |v| v.cmp(&l1) == Ordering::Greater),
            1 => m.clone().map_or(false, |v| v.cmp(&l1) == Ordering::Greater) && m.map_or(false, |v| v.cmp(&l2) == Ordering::Less),
            2 => m.clone().map_or(false, |v| v.cmp(&l1) == Ordering::Equal) || m.map_or(false, |v| v.cmp(&l2) == Ordering::Equal),
            _ => has_member(id),
        };
        if keep {
            want.push(id);
        }
        i += 1;
    }
    let e = match which {
        0 => cmp_expr(4, at_k(), lit_num(&l1)),
        1 => Expr::BinaryOp { op: BinaryOperator::And, left: Box::new(cmp_expr(4, at_k(), lit_num(&l1))), right: Box::new(cmp_expr(2, at_k(), lit_num(&l2))) },
        2 => Expr::BinaryOp { op: BinaryOperator::Or, left: Box::new(cmp_expr(0, at_k(), lit_num(&l1))), right: Box::new(cmp_expr(0, at_k(), lit_num(&l2))) },
        _ => Expr::FilterFunc(FilterFunc::Exists(vec![Path::Current, Path::DotField(Cow::Borrowed(name.as_str()))])),
    };
    let jp = JsonPath { paths: vec![Path::Root, Path::BracketWildcard, Path::FilterExpr(Box::new(e))] };
    check_all(&d, &jp, &want);
    kani::cover!(want.n == 1, "kept one");
    kani::cover!(want.n == 2, "kept two");
    core::mem::forget(jp);
}
//@ props: UNREACHED-C08, UNREACHED-C15
//@ timeout: 1800
//@ harness: c08_filter_member_gt, c08_filter_member_and, c08_filter_member_or, c08_filter_member_exists
//@ desc: `$[*]?(@.k > l)`, `?(@.k > l1 && @.k < l2)`, `?(@.k == l1 || @.k == l2)`, `?(exists(@.k))` on [{k:n,jj:s},{k':n'},n''] with a symbolic member name and arbitrary number literals: an item is kept when its member value satisfies the expression; items without the member, and non-objects, are dropped
//@ fns: Selector::filter_expr, Selector::eval_exists, Selector::convert_expr_val, Selector::select_by_name, Selector::compare
//@ bounds: 3 elements
//@ stubs: parse_value, from_slice -> panic | drop_in_place -> no-op
harness!(c08_filter_member_gt, filter_members(0));
harness!(c08_filter_member_and, filter_members(1));
harness!(c08_filter_member_or, filter_members(2));
harness!(c08_filter_member_exists, filter_members(3));

/// operands that are paths on both sides: root-relative operand and several values per side
fn filter_paths(which: usize) {
    // {a:[n2,n9], b:[n1,n2]} with key lengths 1 and 2 (names fixed by length)
    let d = B::build(&obj(&[1, 2], &[arr(&[leaf(K_NUM, 2), leaf(K_NUM, 9)]), arr(&[leaf(K_NUM, 1), leaf(K_NUM, 2)])]));
    let root = d.node(d.root);
    let (ka, kb) = (d.keyb(d.root, 0), d.keyb(d.root, 1));
    let na = Name { b: ka.b, len: ka.n };
    let nb = Name { b: kb.b, len: kb.n };
    let (a, b) = (d.node(root.kids[0]), d.node(root.kids[1]));
    let num = |id: usize| d.num(&d.node(id));
    let fa = Path::DotField(Cow::Borrowed(na.as_str()));
    let fb = Path::DotField(Cow::Borrowed(nb.as_str()));
    let (jp, want) = match which {
        // $.a[*]?(@ == $.b[*]): elements of a equal to SOME element of b
        0 => {
            let mut w = L::new();
            let mut i = 0;
            while i < a.cnt {
                let mut any = false;
                let mut j = 0;
                while j < b.cnt {
                    if num(a.kids[i]).cmp(&num(b.kids[j])) == Ordering::Equal {
                        any = true;
                    }
                    j += 1;
                }
                if any {
                    w.push(a.kids[i]);
                }
                i += 1;
            }
            let e = cmp_expr(0, cur(), Box::new(Expr::Paths(vec![Path::Root, fb.clone(), Path::BracketWildcard])));
            (JsonPath { paths: vec![Path::Root, fa.clone(), Path::BracketWildcard, Path::FilterExpr(Box::new(e))] }, w)
        }
        // $?(@.a[*] < @.b[*]): the root is kept when SOME pair (x in a, y in b) has x < y
        _ => {
            let mut any = false;
            let mut i = 0;
            while i < a.cnt {
                let mut j = 0;
                while j < b.cnt {
                    if num(a.kids[i]).cmp(&num(b.kids[j])) == Ordering::Less {
                        any = true;
                    }
                    j += 1;
                }
                i += 1;
            }
            let mut w = L::new();
            if any {
                w.push(d.root);
            }
            let l = Box::new(Expr::Paths(vec![Path::Current, fa.clone(), Path::BracketWildcard]));
            let r = Box::new(Expr::Paths(vec![Path::Current, fb.clone(), Path::BracketWildcard]));
            (JsonPath { paths: vec![Path::Root, Path::FilterExpr(Box::new(cmp_expr(2, l, r)))] }, w)
        }
    };
    check_all(&d, &jp, &want);
    kani::cover!(want.n >= 1, "kept");
    kani::cover!(want.n == 0, "dropped");
    core::mem::forget(jp);
}
//@ props: UNREACHED-C08, UNREACHED-C15
//@ timeout: 1800
//@ harness: c08_filter_rootrel, c08_filter_values_values
//@ desc: path operands on both sides on {a:[n,n'],bb:[m,m']}: `$.a[*]?(@ == $.bb[*])` (comparison against the root) keeps the elements equal to some element of bb; `$?(@.a[*] < @.bb[*])` keeps the root when SOME pair of operand values satisfies the comparison (all four pairs matter)
//@ fns: Selector::filter_expr, Selector::convert_expr_val, Selector::compare
//@ bounds: 2x2 operand values
//@ stubs: parse_value, from_slice -> panic | drop_in_place -> no-op
harness!(c08_filter_rootrel, filter_paths(0));
harness!(c08_filter_values_values, filter_paths(1));

/// stand-alone predicate `$[*] OP lit`: one boolean in every mode; exists true; predicate_match agrees
fn predicate(opk: usize) {
    let d = B::build(&arr(&[leaf(K_NUM, 2), leaf(K_NUM, 9)]));
    let lit = any_num();
    let root = d.node(d.root);
    let mut any = false;
    let mut i = 0;
    while i < root.cnt {
        if holds(opk, d.num(&d.node(root.kids[i])).cmp(&lit)) {
            any = true;
        }
        i += 1;
    }
    let l = Box::new(Expr::Paths(vec![Path::Root, Path::BracketWildcard]));
    let jp = JsonPath { paths: vec![Path::Predicate(Box::new(cmp_expr(opk, l, lit_num(&lit))))] };
    let want: [u8; 8] = [0x20, 0, 0, 0, if any { 0x40 } else { 0x30 }, 0, 0, 0];
    let mut m = 0;
    while m < 4 {
        let mode = match m { 0 => Mode::All, 1 => Mode::First, 2 => Mode::Array, _ => Mode::Mixed };
        let (data, _offs) = run(&d, &jp, mode);
        assert!(data.len() == 8, "a predicate path yields one boolean document");
        let mut k = 0;
        while k < 8 {
            assert!(data[k] == want[k], "every mode returns the single boolean the predicate denotes");
            k += 1;
        }
        core::mem::forget(data);
        m += 1;
    }
    let sel = Selector::new(jp.clone(), Mode::First);
    assert!(sel.predicate_match(d.bytes()) == Ok(any), "predicate_match reports the same boolean");
    assert!(sel.exists(d.bytes()) == Ok(true), "existence is true for a predicate path");
    kani::cover!(any, "predicate true");
    kani::cover!(!any, "predicate false");
    core::mem::forget(sel);
    core::mem::forget(jp);
}
//@ props: UNREACHED-C08, UNREACHED-C15
//@ timeout: 1200
//@ harness: c08_predicate_gt, c08_predicate_eq
//@ desc: stand-alone predicates `$[*] > l` and `$[*] == l` on [n,n'] with an arbitrary number literal: all four modes return the single boolean, predicate_match reports it, exists is true
//@ fns: Selector::select, Selector::build_predicate_result, Selector::predicate_match, Selector::exists, Selector::filter_expr
//@ bounds: 2 elements
//@ stubs: parse_value, from_slice -> panic | drop_in_place -> no-op
harness!(c08_predicate_gt, predicate(4));
harness!(c08_predicate_eq, predicate(0));

/// array-mode / mixed-mode against all-mode, and a filter followed by a further step
fn modes(which: usize) {
    match which {
        0 => shapes4(|d| {
            let want = step_wild_bracket(d, &L::one(d.root));
            let jp = JsonPath { paths: vec![Path::Root, Path::BracketWildcard] };
            check_array_mixed(d, &jp, &want);
            core::mem::forget(jp);
        }),
        1 => shapes4(|d| {
            let want = step_wild_dot(d, &L::one(d.root));
            let jp = JsonPath { paths: vec![Path::Root, Path::DotWildcard] };
            check_array_mixed(d, &jp, &want);
            core::mem::forget(jp);
        }),
        _ => {
            // $[*]?(@.k >= l).jj on [{k:n},{k:n',jj:s}]: first-mode must be the first all-mode item
            let d = B::build(&arr(&[obj(&[1], &[leaf(K_NUM, 2)]), obj(&[1, 2], &[leaf(K_NUM, 9), leaf(K_STR, 1)])]));
            let root = d.node(d.root);
            let lit = any_num();
            let k0 = d.keyb(root.kids[0], 0);
            let nk = Name { b: k0.b, len: 1 };
            let j1 = d.keyb(root.kids[1], 1);
            let nj = Name { b: j1.b, len: 2 };
            let mut want = L::new();
            let mut i = 0;
            while i < root.cnt {
                let x = d.node(root.kids[i]);
                let mut keep = false;
                let mut jj = None;
                let mut m = 0;
                while m < x.cnt {
                    if nk.eq_key(&d, x.koff[m], x.klen[m]) && d.num(&d.node(x.kids[m])).cmp(&lit) != Ordering::Less {
                        keep = true;
                    }
                    if nj.eq_key(&d, x.koff[m], x.klen[m]) {
                        jj = Some(x.kids[m]);
                    }
                    m += 1;
                }
                if keep {
                    if let Some(id) = jj {
                        want.push(id);
                    }
                }
                i += 1;
            }
            let e = cmp_expr(5, Box::new(Expr::Paths(vec![Path::Current, Path::DotField(Cow::Borrowed(nk.as_str()))])), lit_num(&lit));
            let jp = JsonPath { paths: vec![Path::Root, Path::BracketWildcard, Path::FilterExpr(Box::new(e)), Path::DotField(Cow::Borrowed(nj.as_str()))] };
            check_all(&d, &jp, &want);
            kani::cover!(want.n == 1, "one item after the filter and the further step");
            kani::cover!(want.n == 0, "no item");
            core::mem::forget(jp);
        }
    }
}
//@ props: UNREACHED-C08, UNREACHED-C15
//@ timeout: 1800
//@ harness: c15_modes_brwild, c15_modes_dotwild, c15_filter_then_step
//@ desc: array-mode returns one array holding exactly the all-mode items, mixed-mode equals array-mode for two or more items and all-mode otherwise (`$[*]` and `$.*` on four shapes); `$[*]?(@.k >= l).jj` (a filter followed by a further step): all-mode items, and first-mode = the first of them even when the first element passing the filter has no `jj`
//@ fns: Selector::select, Selector::build_scalar_array, Selector::build_values, Selector::find_positions
//@ bounds: <= 3 items
//@ stubs: parse_value, from_slice -> panic | drop_in_place -> no-op
harness!(c15_modes_brwild, modes(0));
harness!(c15_modes_dotwild, modes(1));
harness!(c15_filter_then_step, modes(2));

//@ props: UNREACHED-C08, UNREACHED-C15
//@ timeout: 300
//@ expect: twin
//@ desc: vacuity twin: `$[*]` on a 2-element array claimed to select nothing — must be refuted
//@ fns: Selector::select
#[kani::proof]
#[kani::unwind(5)]
#[kani::stub(crate::parser::parse_value, no_parse_value)]
#[kani::stub(crate::de::from_slice, no_from_slice)]
#[kani::stub(std::ptr::drop_in_place, noop_drop)]
fn c08_twin_must_fail() {
    let d = B::build(&arr(&[leaf(K_NUM, 2), leaf(K_STR, 1)]));
    let jp = JsonPath { paths: vec![Path::Root, Path::BracketWildcard] };
    let (data, offs) = run(&d, &jp, Mode::All);
    let e = offs.is_empty();
    core::mem::forget((data, offs, jp));
    assert!(e, "TWIN: deliberately false");
}
