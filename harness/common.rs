//! Shared stubs, spec-side encoders and reference semantics.
use crate::error::Error;
use crate::number::Number;
use crate::value::Value;

/// Leak model: every drop is a no-op (DESIGN §1.1-1).
pub fn noop_drop<T: ?Sized>(_p: *mut T) {}

/// Text fallback must be unreachable in binary-only harnesses.
pub fn no_parse_value(_buf: &[u8]) -> Result<Value<'_>, Error> {
    panic!("verif: JSON-text fallback reached in a binary-only harness")
}
pub fn no_from_slice(_buf: &[u8]) -> Result<Value<'_>, Error> {
    panic!("verif: from_slice fallback reached in a binary-only harness")
}

/// Arbitrary Number of any representation and any 64-bit pattern.
pub fn any_number() -> Number {
    let k: u8 = kani::any();
    kani::assume(k < 3);
    match k {
        0 => Number::Int64(kani::any()),
        1 => Number::UInt64(kani::any()),
        _ => Number::Float64(f64::from_bits(kani::any())),
    }
}

/// README-derived shortest number encoding: returns (bytes, len).
pub fn spec_num(n: &Number) -> ([u8; 9], usize) {
    let mut b = [0u8; 9];
    match *n {
        Number::Int64(v) => {
            if v == 0 {
                b[0] = 0x00;
                (b, 1)
            } else if v >= -128 && v <= 127 {
                b[0] = 0x40;
                b[1] = v as i8 as u8;
                (b, 2)
            } else if v >= -32768 && v <= 32767 {
                b[0] = 0x40;
                let x = (v as i16).to_be_bytes();
                b[1] = x[0];
                b[2] = x[1];
                (b, 3)
            } else if v >= -2147483648 && v <= 2147483647 {
                b[0] = 0x40;
                let x = (v as i32).to_be_bytes();
                b[1] = x[0];
                b[2] = x[1];
                b[3] = x[2];
                b[4] = x[3];
                (b, 5)
            } else {
                b[0] = 0x40;
                let x = v.to_be_bytes();
                let mut i = 0;
                while i < 8 {
                    b[1 + i] = x[i];
                    i += 1;
                }
                (b, 9)
            }
        }
        Number::UInt64(v) => {
            if v == 0 {
                b[0] = 0x00;
                (b, 1)
            } else if v <= 0xff {
                b[0] = 0x50;
                b[1] = v as u8;
                (b, 2)
            } else if v <= 0xffff {
                b[0] = 0x50;
                b[1] = (v >> 8) as u8;
                b[2] = v as u8;
                (b, 3)
            } else if v <= 0xffff_ffff {
                b[0] = 0x50;
                b[1] = (v >> 24) as u8;
                b[2] = (v >> 16) as u8;
                b[3] = (v >> 8) as u8;
                b[4] = v as u8;
                (b, 5)
            } else {
                b[0] = 0x50;
                let x = v.to_be_bytes();
                let mut i = 0;
                while i < 8 {
                    b[1 + i] = x[i];
                    i += 1;
                }
                (b, 9)
            }
        }
        Number::Float64(f) => {
            let bits = f.to_bits();
            let exp = (bits >> 52) & 0x7ff;
            let man = bits & 0x000f_ffff_ffff_ffff;
            if exp == 0x7ff && man != 0 {
                b[0] = 0x10;
                (b, 1)
            } else if exp == 0x7ff {
                b[0] = if bits >> 63 == 1 { 0x30 } else { 0x20 };
                (b, 1)
            } else {
                b[0] = 0x60;
                let x = bits.to_be_bytes();
                let mut i = 0;
                while i < 8 {
                    b[1 + i] = x[i];
                    i += 1;
                }
                (b, 9)
            }
        }
    }
}

/// Exact comparison of two numbers by mathematical value; NaN greatest and equal to itself.
/// Independent of `Number::cmp`: integers via i128, integer-vs-double by an exact case split.
pub fn ref_num_cmp(a: &Number, b: &Number) -> core::cmp::Ordering {
    use core::cmp::Ordering::*;
    match (a, b) {
        (Number::Float64(x), Number::Float64(y)) => ref_f64_cmp(*x, *y),
        (Number::Float64(x), _) => ref_int_f64_cmp(int_of(b), *x).reverse(),
        (_, Number::Float64(y)) => ref_int_f64_cmp(int_of(a), *y),
        _ => int_of(a).cmp(&int_of(b)),
    }
}

pub fn int_of(n: &Number) -> i128 {
    match *n {
        Number::Int64(v) => v as i128,
        Number::UInt64(v) => v as i128,
        Number::Float64(_) => 0,
    }
}

fn ref_f64_cmp(x: f64, y: f64) -> core::cmp::Ordering {
    use core::cmp::Ordering::*;
    let xn = x != x;
    let yn = y != y;
    if xn && yn {
        Equal
    } else if xn {
        Greater
    } else if yn {
        Less
    } else if x < y {
        Less
    } else if x > y {
        Greater
    } else {
        Equal
    }
}

/// Compare the integer `i` (|i| < 2^64) with the double `f` exactly, using only the bit pattern of
/// `f` and integer arithmetic (no int->float conversion, which is what is under test).
pub fn ref_int_f64_cmp(i: i128, f: f64) -> core::cmp::Ordering {
    use core::cmp::Ordering::*;
    let bits = f.to_bits();
    let neg = (bits >> 63) == 1;
    let exp = ((bits >> 52) & 0x7ff) as i32;
    let man = bits & 0x000f_ffff_ffff_ffff;
    if exp == 0x7ff {
        if man != 0 {
            return Less; // NaN is greatest
        }
        return if neg { Greater } else { Less };
    }
    // f = (-1)^neg * m * 2^e with m integer
    let (m, e): (u64, i32) = if exp == 0 { (man, -1074) } else { (man | (1u64 << 52), exp - 1075) };
    if m == 0 {
        return i.cmp(&0);
    }
    // compare sign first
    if neg && i >= 0 {
        return Greater;
    }
    if !neg && i <= 0 {
        return Less;
    }
    // same strict sign, compare magnitudes |i| vs m*2^e
    let a: u128 = if i < 0 { (-i) as u128 } else { i as u128 };
    let mag = if e >= 0 {
        if e >= 12 {
            // m >= 2^52 (normal, since e >= 0 implies exp >= 1075), so m*2^e >= 2^64 > a
            Less
        } else {
            a.cmp(&((m as u128) << (e as u32)))
        }
    } else {
        let s = (-e) as u32;
        if s >= 64 {
            // m*2^e < 2^53 * 2^-64 < 1 <= a
            Greater
        } else {
            // compare a*2^s with m  (a < 2^64, s < 64: fits u128)
            (a << s).cmp(&(m as u128))
        }
    };
    if neg {
        mag.reverse()
    } else {
        mag
    }
}

/// Model of the two private `read_u32` helpers (functions.rs, iterator.rs): big-endian u32 at `idx`,
/// `Err(InvalidEOF)` when fewer than 4 bytes remain. Used as a stub in the byte-walker harnesses
/// because the original goes through `Option<&[u8]>` (a pointer merged with an invalid alternative),
/// which defeats CBMC's constant propagation of header words. The model is proved equivalent to the
/// real functions for every buffer of <= 24 bytes and every index in c00::c00_read_u32_model_*.
pub fn read_u32_model(buf: &[u8], idx: usize) -> Result<u32, Error> {
    if idx > buf.len() || buf.len() - idx < 4 {
        return Err(Error::InvalidEOF);
    }
    Ok(u32::from_be_bytes([buf[idx], buf[idx + 1], buf[idx + 2], buf[idx + 3]]))
}

// ---------------------------------------------------------------------------------------------
// Models of std functions (environment, not code under test). The real implementations use
// word-at-a-time scanning with alignment-dependent paths that the symbolic executor explores for
// every symbolic byte; the models below are the specification of those functions (Unicode table 3-7).

pub fn utf8_ok_slice(v: &[u8]) -> bool {
    let mut need = 0u8;
    let mut lo = 0x80u8;
    let mut hi = 0xBFu8;
    let mut k = 0;
    while k < v.len() {
        let c = v[k];
        if need == 0 {
            if c < 0x80 {
            } else if c >= 0xC2 && c <= 0xDF {
                need = 1; lo = 0x80; hi = 0xBF;
            } else if c == 0xE0 {
                need = 2; lo = 0xA0; hi = 0xBF;
            } else if (c >= 0xE1 && c <= 0xEC) || c == 0xEE || c == 0xEF {
                need = 2; lo = 0x80; hi = 0xBF;
            } else if c == 0xED {
                need = 2; lo = 0x80; hi = 0x9F;
            } else if c == 0xF0 {
                need = 3; lo = 0x90; hi = 0xBF;
            } else if c >= 0xF1 && c <= 0xF3 {
                need = 3; lo = 0x80; hi = 0xBF;
            } else if c == 0xF4 {
                need = 3; lo = 0x80; hi = 0x8F;
            } else {
                return false;
            }
        } else {
            if c < lo || c > hi {
                return false;
            }
            need -= 1; lo = 0x80; hi = 0xBF;
        }
        k += 1;
    }
    need == 0
}

/// model of core::str::from_utf8: Ok(the same bytes as str) exactly for well-formed UTF-8
pub fn from_utf8_model(v: &[u8]) -> Result<&str, core::str::Utf8Error> {
    if utf8_ok_slice(v) {
        Ok(unsafe { core::str::from_utf8_unchecked(v) })
    } else {
        // the error value is opaque to jsonb (it only maps it to Error::InvalidUtf8)
        Err(unsafe { core::mem::zeroed() })
    }
}

/// model of String::from_utf8_lossy restricted to well-formed input (the only case a valid document
/// produces); ill-formed input is reported as a harness failure instead of being replaced
pub fn from_utf8_lossy_model(v: &[u8]) -> std::borrow::Cow<'_, str> {
    assert!(utf8_ok_slice(v), "verif: from_utf8_lossy called on ill-formed UTF-8");
    std::borrow::Cow::Borrowed(unsafe { core::str::from_utf8_unchecked(v) })
}

/// In array-only instances no ObjectBuilder is ever created; the `Entry::ObjectBuilder` arm of
/// `write_entry` is unreachable. Stubbing its callee with a panic prunes the arm for the symbolic
/// executor (which cannot see the enum tag behind the heap pointer) and PROVES that it is not taken.
pub fn no_object_builder<'a>(_b: crate::builder::ObjectBuilder<'a>, _buf: &mut Vec<u8>) -> usize
where
    'a: 'a,
{
    panic!("verif: ObjectBuilder::build_into reached in an array-only instance")
}
