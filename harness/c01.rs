//! C01 — binary encoding round-trips every value and is exactly the documented layout.
//! (Number codec: c18::c18_codec_roundtrip, shared.)
use super::bdoc::*;
use super::common::*;
use crate::de::parse_jsonb;
use crate::number::Number;
use crate::value::Value;

macro_rules! harness {
    ($name:ident, $body:expr) => {
        #[kani::proof]
        #[kani::unwind(3)]
        #[kani::stub(std::ptr::drop_in_place, noop_drop)]
        #[kani::stub(core::str::from_utf8, from_utf8_model)]
        fn $name() {
            $body
        }
    };
}

fn same_num(a: &Number, b: &Number) -> bool {
    match (a, b) {
        (Number::Int64(x), Number::Int64(y)) => x == y,
        (Number::UInt64(x), Number::UInt64(y)) => x == y,
        (Number::Float64(x), Number::Float64(y)) => x.to_bits() == y.to_bits() || (x.is_nan() && y.is_nan()),
        _ => false,
    }
}

fn str_is(s: &str, d: &B, off: usize, len: usize) -> bool {
    let b = s.as_bytes();
    if b.len() != len {
        return false;
    }
    let mut i = 0;
    while i < len {
        if b[i] != d.b[off + i] {
            return false;
        }
        i += 1;
    }
    true
}

/// strict structural equality of a decoded Value with the descriptor: same variant, bit-exact
/// numbers in the same representation, exact string and key bytes, children in order
fn matches(v: &Value, d: &B, id: usize) -> bool {
    let x = d.node(id);
    match v {
        Value::Null => x.kind == K_NULL,
        Value::Bool(b) => (x.kind == K_TRUE && *b) || (x.kind == K_FALSE && !*b),
        Value::Number(n) => x.kind == K_NUM && same_num(n, &d.num(&x)),
        Value::String(s) => x.kind == K_STR && str_is(s, d, x.off, x.len),
        Value::Array(vs) => {
            if x.kind != K_ARR || vs.len() != x.cnt {
                return false;
            }
            let mut ok = true;
            let mut i = 0;
            while i < x.cnt {
                if !matches(&vs[i], d, x.kids[i]) {
                    ok = false;
                }
                i += 1;
            }
            ok
        }
        Value::Object(m) => {
            if x.kind != K_OBJ || m.len() != x.cnt {
                return false;
            }
            let mut ok = true;
            let mut i = 0;
            for (k, val) in m.iter() {
                if i < x.cnt {
                    if !str_is(k, d, x.koff[i], x.klen[i]) || !matches(val, d, x.kids[i]) {
                        ok = false;
                    }
                }
                i += 1;
            }
            ok
        }
    }
}

/// the Value the descriptor denotes, built by the harness (no decoder involved)
fn value_of(d: &B, id: usize) -> Value<'static> {
    let x = d.node(id);
    match x.kind {
        K_NULL => Value::Null,
        K_TRUE => Value::Bool(true),
        K_FALSE => Value::Bool(false),
        K_NUM => Value::Number(d.num(&x)),
        K_STR => Value::String(std::borrow::Cow::Owned(string_at(d, x.off, x.len))),
        K_ARR => {
            let mut v = Vec::with_capacity(x.cnt);
            let mut i = 0;
            while i < x.cnt {
                v.push(value_of(d, x.kids[i]));
                i += 1;
            }
            Value::Array(v)
        }
        _ => {
            let mut m = std::collections::BTreeMap::new();
            let mut i = 0;
            while i < x.cnt {
                m.insert(string_at(d, x.koff[i], x.klen[i]), value_of(d, x.kids[i]));
                i += 1;
            }
            Value::Object(m)
        }
    }
}
fn string_at(d: &B, off: usize, len: usize) -> String {
    let mut v = Vec::with_capacity(len);
    let mut i = 0;
    while i < len {
        v.push(d.b[off + i]);
        i += 1;
    }
    unsafe { String::from_utf8_unchecked(v) }
}

/// encoder vs layout: encoding the value the descriptor denotes gives exactly the README bytes
fn encode(d: &B) {
    let v = value_of(d, d.root);
    let out = v.to_vec();
    assert!(same(&out, &d.b, d.n), "encoding is exactly the README layout: header with kind and count, one entry word per element with the exact payload length, keys once, sorted, ahead of the values, shortest numbers");
    core::mem::forget((v, out));
}

/// decoder on scalar documents: exactly the stored scalar comes back
fn decode_scalar_doc(d: &B) {
    let r = parse_jsonb(d.bytes());
    assert!(r.is_ok(), "a document in the documented layout decodes");
    let v = r.unwrap();
    let x = d.node(d.root);
    let ok = match &v {
        Value::Null => x.kind == K_NULL,
        Value::Bool(b) => (x.kind == K_TRUE && *b) || (x.kind == K_FALSE && !*b),
        Value::Number(n) => x.kind == K_NUM && same_num(n, &d.num(&x)),
        Value::String(s) => x.kind == K_STR && str_is(s, d, x.off, x.len),
        _ => false,
    };
    assert!(ok, "the decoded scalar is the stored scalar: same kind, number bit for bit in the same representation, same string bytes");
    core::mem::forget(v);
}

/// decoder on containers: shape and leaves of the decoded tree (one level)
fn decode_flat(d: &B) {
    let r = parse_jsonb(d.bytes());
    assert!(r.is_ok(), "a document in the documented layout decodes");
    let v = r.unwrap();
    assert!(matches(&v, d, d.root), "the decoded value is the document: same shape, strings, key sets, numbers bit for bit");
    core::mem::forget(v);
}

fn roundtrip(d: &B) {
    let r = parse_jsonb(d.bytes());
    assert!(r.is_ok(), "a document in the documented layout decodes");
    let v = r.unwrap();
    assert!(matches(&v, d, d.root), "the decoded value is the document: same shape, strings, key sets, numbers bit for bit");
    let out = v.to_vec();
    assert!(same(&out, &d.b, d.n), "re-encoding reproduces the identical bytes (README layout: header, one entry word per element with its exact payload length, sorted unique keys first, shortest numbers)");
    core::mem::forget(out);
    core::mem::forget(v);
}

//@ props: C01
//@ timeout: 1200
//@ harness: c01_decode_scalar_a, c01_decode_scalar_b, c01_decode_arr, c01_encode_scalar
//@ desc: decoder: scalar documents of all 11 (kind,width) classes and [n9,null,s1] built from the README layout with symbolic payloads decode to exactly that value (numbers bit for bit in the same representation, exact string bytes); encoder: the Value denoted by the descriptor (built by the harness, symbolic payloads) encodes byte for byte to the README layout for scalars of all 11 classes; the number codec itself is c18_codec_roundtrip over all 64-bit values
//@ fns: parse_jsonb, Decoder::decode_jsonb, Decoder::decode_scalar, Decoder::decode_array, Decoder::decode_jentries, Number::decode, Encoder::encode, Encoder::encode_scalar, Encoder::encode_array, Encoder::encode_object, Encoder::encode_value, Encoder::reserve_jentries, Encoder::replace_jentry, Number::compact_encode
//@ bounds: scalar documents and one flat array; strings <= 2 bytes
//@ stubs: drop_in_place -> no-op | core::str::from_utf8 -> specification model
//@ outside: encoding and decoding of objects and nested containers through the Value tree (Value is an enum behind heap pointers: not reached within 15 min per instance, DESIGN §0.5). The container layout itself (header, entry words with exact lengths, keys first and sorted) is exercised on the byte level by every C04/C05/C06 harness, whose inputs are built from the README layout and whose outputs are compared with it
harness!(c01_decode_scalar_a, split1(6, |i| decode_scalar_doc(&B::build(&lf(CLS[i])))));
harness!(c01_decode_scalar_b, split1(5, |i| decode_scalar_doc(&B::build(&lf(CLS[6 + i])))));
harness!(c01_decode_arr, decode_flat(&B::build(&arr(&[leaf(K_NUM, 9), leaf(K_NULL, 0), leaf(K_STR, 1)]))));
harness!(c01_encode_scalar, split1(NCLS, |i| encode(&B::build(&lf(CLS[i])))));

//@ props: UNREACHED-C01
//@ timeout: 1800
//@ harness: c01_scalar, c01_scalar_b
//@ desc: scalar documents of all 11 (kind,width) classes built from the README layout with symbolic payloads: parse_jsonb returns exactly that value and to_vec reproduces the bytes
//@ fns: parse_jsonb, Decoder::decode_jsonb, Decoder::decode_scalar, Number::decode, Encoder::encode, Encoder::encode_scalar, Encoder::encode_value, Number::compact_encode
//@ bounds: strings <= 2 bytes
//@ stubs: drop_in_place -> no-op | core::str::from_utf8 -> specification model
harness!(c01_scalar, split1(6, |i| roundtrip(&B::build(&lf(CLS[i])))));
harness!(c01_scalar_b, split1(5, |i| roundtrip(&B::build(&lf(CLS[6 + i])))));

//@ props: UNREACHED-C01
//@ timeout: 1200
//@ harness: c01_shape_0, c01_shape_1, c01_shape_2, c01_shape_3, c01_shape_4, c01_shape_8, c01_shape_67
//@ desc: container documents [x,y,s], [[x],y], [x,{k:y},n], {k:x,kk:y}, {"":x,k:[y]}, {k:{j:x},k':y,kk:null}, [] and {} built from the README layout (one class assignment per shape mixing all payload widths 0/1/2/3/5/9; symbolic payloads and key bytes, keys sorted unique): decode gives exactly that tree, re-encode gives the identical bytes
//@ fns: parse_jsonb, Decoder::decode_array, Decoder::decode_object, Decoder::decode_jentries, Encoder::encode_array, Encoder::encode_object, Encoder::reserve_jentries, Encoder::replace_jentry
//@ bounds: depth 2, <= 3 children, strings/keys <= 2 bytes
//@ stubs: drop_in_place -> no-op | core::str::from_utf8 -> specification model
harness!(c01_shape_0, with_shape(0, (K_NUM, 9), (K_NULL, 0), |d| roundtrip(d)));
harness!(c01_shape_1, with_shape(1, (K_STR, 2), (K_NUM, 2), |d| roundtrip(d)));
harness!(c01_shape_2, with_shape(2, (K_TRUE, 0), (K_NUM, 5), |d| roundtrip(d)));
harness!(c01_shape_3, with_shape(3, (K_NUM, 3), (K_STR, 1), |d| roundtrip(d)));
harness!(c01_shape_4, with_shape(4, (K_FALSE, 0), (K_NUM, 1), |d| roundtrip(d)));
harness!(c01_shape_8, with_shape(8, (K_NUM, 2), (K_STR, 0), |d| roundtrip(d)));
harness!(c01_shape_67, split1(2, |k| shapes_split(6 + k, &CLS_T, 1, |d| roundtrip(d))));

//@ props: C01
//@ timeout: 300
//@ expect: twin
//@ desc: vacuity twin: decoding a number document claimed to fail — must be refuted
//@ fns: parse_jsonb
#[kani::proof]
#[kani::unwind(3)]
#[kani::stub(std::ptr::drop_in_place, noop_drop)]
fn c01_twin_must_fail() {
    let d = B::build(&leaf(K_NUM, 2));
    let r = parse_jsonb(d.bytes());
    let bad = r.is_err();
    core::mem::forget(r);
    assert!(bad, "TWIN: deliberately false");
}
