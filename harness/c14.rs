//! C14 — the comparable key sorts bytewise exactly as compare orders documents.
use super::bdoc::*;
use super::common::*;
use crate::functions::{compare, convert_to_comparable};
use crate::number::Number;
use core::cmp::Ordering;

macro_rules! harness {
    ($name:ident, $body:expr) => {
        #[kani::proof]
        #[kani::unwind(5)]
        #[kani::stub(crate::parser::parse_value, no_parse_value)]
        #[kani::stub(std::ptr::drop_in_place, noop_drop)]
        fn $name() {
            $body
        }
    };
}

fn cmp_slices(a: &[u8], b: &[u8]) -> Ordering {
    let m = if a.len() < b.len() { a.len() } else { b.len() };
    let mut i = 0;
    while i < m {
        if a[i] < b[i] {
            return Ordering::Less;
        }
        if a[i] > b[i] {
            return Ordering::Greater;
        }
        i += 1;
    }
    a.len().cmp(&b.len())
}

/// Recorded defect classes of the key format (known_findings.json F7a/F7b/F7c): outside them the
/// property must hold. a) a string or key byte <= 0x07 collides with the depth/level marker bytes
/// (strings are neither escaped nor terminated); b) integers beyond 2^53 share their double image;
/// c) -0.0 and 0.0 have different images although compare says Equal.
fn in_carve_out(d: &B) -> bool {
    let mut ok = true;
    let mut i = 0;
    while i < d.nn {
        let x = d.node(i);
        if x.kind == K_STR {
            let mut j = 0;
            while j < x.len {
                if d.b[x.off + j] <= 0x07 {
                    ok = false;
                }
                j += 1;
            }
        } else if x.kind == K_NUM {
            match d.num(&x) {
                Number::Int64(v) => {
                    if v.unsigned_abs() > (1u64 << 53) {
                        ok = false;
                    }
                }
                Number::UInt64(v) => {
                    if v > (1u64 << 53) {
                        ok = false;
                    }
                }
                Number::Float64(f) => {
                    if f.to_bits() == 0x8000_0000_0000_0000 {
                        ok = false;
                    }
                }
            }
        } else if x.kind == K_OBJ {
            let mut k = 0;
            while k < x.cnt {
                let mut j = 0;
                while j < x.klen[k] {
                    if d.b[x.koff[k] + j] <= 0x07 {
                        ok = false;
                    }
                    j += 1;
                }
                k += 1;
            }
        }
        i += 1;
    }
    ok
}

fn key_order(a: &B, b: &B) -> Ordering {
    let mut ka = Vec::new();
    let mut kb = Vec::new();
    convert_to_comparable(a.bytes(), &mut ka);
    convert_to_comparable(b.bytes(), &mut kb);
    let o = cmp_slices(&ka, &kb);
    core::mem::forget(ka);
    core::mem::forget(kb);
    o
}

fn check(a: &B, b: &B) -> Ordering {
    kani::assume(in_carve_out(a) && in_carve_out(b));
    let c = compare(a.bytes(), b.bytes()).unwrap();
    assert!(key_order(a, b) == c, "bytewise order of the comparable keys equals compare");
    assert!(key_order(b, a) == c.reverse(), "and in the other argument order");
    c
}

fn ss(first: usize) {
    split1(NCLS - first, |d| {
        let (a, b) = (B::build(&lf(CLS[first])), B::build(&lf(CLS[first + d])));
        let c = check(&a, &b);
        kani::cover!(d != 0 || c == Ordering::Equal, "equal documents, equal keys");
    });
}
//@ props: C14
//@ timeout: 900
//@ harness: c14_ss_0, c14_ss_1, c14_ss_2, c14_ss_3, c14_ss_4, c14_ss_5, c14_ss_6, c14_ss_7, c14_ss_8, c14_ss_9, c14_ss_10
//@ desc: scalar vs scalar documents over all (kind,width) class pairs (both argument orders): key order == compare, outside the three recorded defect classes (string bytes <= 0x07, integers beyond 2^53, -0.0)
//@ fns: convert_to_comparable, scalar_convert_to_comparable, compare
//@ bounds: strings <= 2 bytes
//@ stubs: parse_value -> panic | drop_in_place -> no-op
//@ outside: the recorded finding classes F7a/F7b/F7c (checked separately: they must still fail) | nesting depth >= 255 (depth byte wraps)
harness!(c14_ss_0, ss(0));
harness!(c14_ss_1, ss(1));
harness!(c14_ss_2, ss(2));
harness!(c14_ss_3, ss(3));
harness!(c14_ss_4, ss(4));
harness!(c14_ss_5, ss(5));
harness!(c14_ss_6, ss(6));
harness!(c14_ss_7, ss(7));
harness!(c14_ss_8, ss(8));
harness!(c14_ss_9, ss(9));
harness!(c14_ss_10, ss(10));

const T3: [(u8, usize); 3] = [(K_NUM, 2), (K_STR, 1), (K_NULL, 0)];
fn pairs(k: usize, i: usize, j: usize) {
    let (x, y) = (lf(T3[i]), lf(T3[j]));
    let n2 = leaf(K_NUM, 2);
    let n9 = leaf(K_NUM, 9);
    let s1 = leaf(K_STR, 1);
    let (a, b) = match k {
        // strings that are prefixes of one another followed by further elements
        0 => (B::build(&arr(&[s1, x])), B::build(&arr(&[leaf(K_STR, 2), y]))),
        // arrays that differ only in length / in the last element, equal numbers of different width first
        1 => (B::build(&arr(&[n2, x])), B::build(&arr(&[n9, y, s1]))),
        // objects: key prefix of key, then values
        2 => (B::build(&obj(&[1], &[x])), B::build(&obj(&[2], &[y]))),
        3 => (B::build(&obj(&[1, 2], &[n2, x])), B::build(&obj(&[1, 2], &[n9, y]))),
        // nested array followed by a sibling vs longer nested array
        4 => (B::build(&arr(&[arr(&[x]), y])), B::build(&arr(&[arr(&[x, y])]))),
        // nested object followed by siblings vs nested object with one more member
        5 => (B::build(&arr(&[obj(&[1], &[n2]), s1, x])), B::build(&arr(&[obj(&[1, 1], &[n2, y])]))),
        // container kinds against each other and against scalars
        6 => (B::build(&arr(&[x])), B::build(&obj(&[1], &[y]))),
        7 => (B::build(&arr(&[arr(&[]), x])), B::build(&arr(&[obj(&[], &[]), y]))),
        _ => (B::build(&obj(&[1], &[arr(&[x])])), B::build(&obj(&[1], &[obj(&[1], &[y])]))),
    };
    let c = check(&a, &b);
    kani::cover!(c != Ordering::Equal, "different documents");
}
//@ props: C14
//@ timeout: 1200
//@ harness: c14_pairs_0, c14_pairs_2, c14_pairs_6, c14_pairs_7, c14_pairs_8
//@ desc: container pairs: [s1,x] vs [s2,y] (string prefix then more elements); {k:x} vs {kk:y}; [x] vs {k:y}; [[],x] vs [{},y]; {k:[x]} vs {k':{j:y}}; x,y case-split over {number width 2, 1-byte string} (quick) / plus null (thorough); key order == compare outside the recorded classes
//@ fns: convert_to_comparable, array_convert_to_comparable, object_convert_to_comparable, scalar_convert_to_comparable, compare
//@ bounds: depth 2, <= 3 children, strings/keys <= 2 bytes
//@ stubs: parse_value -> panic | drop_in_place -> no-op
harness!(c14_pairs_0, split2(2, 2, |i, j| pairs(0, i, j)));
harness!(c14_pairs_2, split2(2, 2, |i, j| pairs(2, i, j)));
harness!(c14_pairs_6, split2(2, 2, |i, j| pairs(6, i, j)));
harness!(c14_pairs_7, split2(2, 2, |i, j| pairs(7, i, j)));
harness!(c14_pairs_8, split2(2, 2, |i, j| pairs(8, i, j)));

//@ props: UNREACHED-C14
//@ tier: thorough
//@ timeout: 7200
//@ harness: c14_pairs_0_w, c14_pairs_1_w, c14_pairs_2_w, c14_pairs_3_w, c14_pairs_4_w, c14_pairs_5_w, c14_pairs_6_w, c14_pairs_7_w, c14_pairs_8_w
//@ desc: the nine container-pair families with all 3x3 class pairs (number width 2, 1-byte string, null)
//@ fns: convert_to_comparable, compare
//@ bounds: depth 2
//@ stubs: parse_value -> panic | drop_in_place -> no-op
harness!(c14_pairs_0_w, split2(3, 3, |i, j| pairs(0, i, j)));
harness!(c14_pairs_1_w, split2(3, 3, |i, j| pairs(1, i, j)));
harness!(c14_pairs_2_w, split2(3, 3, |i, j| pairs(2, i, j)));
harness!(c14_pairs_3_w, split2(3, 3, |i, j| pairs(3, i, j)));
harness!(c14_pairs_4_w, split2(3, 3, |i, j| pairs(4, i, j)));
harness!(c14_pairs_5_w, split2(3, 3, |i, j| pairs(5, i, j)));
harness!(c14_pairs_6_w, split2(3, 3, |i, j| pairs(6, i, j)));
harness!(c14_pairs_7_w, split2(3, 3, |i, j| pairs(7, i, j)));
harness!(c14_pairs_8_w, split2(3, 3, |i, j| pairs(8, i, j)));

/// order of two doubles as the key format images them: -0.0 below 0.0, NaN greatest
fn image_cmp(x: f64, y: f64) -> Ordering {
    let img = |f: f64| -> u64 {
        let s = f.to_bits();
        if s >> 63 == 1 { !s } else { s | (1u64 << 63) }
    };
    img(x).cmp(&img(y))
}
//@ props: C14
//@ timeout: 900
//@ desc: numbers without the carve-out: the keys of two number documents (any representation, any value, width classes 2/5/9 x 9) always order like the doubles nearest to the numbers (IEEE total order of the f64 views) — the relation that still holds inside recorded class F7b/F7c, so any other corruption of the number image (wrap-around, wrong sign handling) is still reported
//@ fns: convert_to_comparable, scalar_convert_to_comparable, Number::as_f64
//@ bounds: scalar number documents
//@ stubs: parse_value -> panic | drop_in_place -> no-op
#[kani::proof]
#[kani::unwind(5)]
#[kani::stub(crate::parser::parse_value, no_parse_value)]
#[kani::stub(std::ptr::drop_in_place, noop_drop)]
fn c14_number_image() {
    split1(4, |i| {
        let (a, b) = (B::build(&leaf(K_NUM, [1, 2, 5, 9][i])), B::build(&leaf(K_NUM, 9)));
        let (x, y) = (a.num(&a.node(a.root)).as_f64().unwrap(), b.num(&b.node(b.root)).as_f64().unwrap());
        assert!(key_order(&a, &b) == image_cmp(x, y), "number keys order like the f64 views of the numbers");
        kani::cover!(i == 3 && x > 9.3e18, "unsigned integer above i64::MAX");
    });
}

// ---- recorded findings: restricted to the class, the property is expected to FAIL (KNOWN-FINDING)
//@ props: C14
//@ timeout: 600
//@ expect: known:F7a
//@ desc: recorded finding F7a: string elements are neither escaped nor terminated in the key, so a string byte <= 0x07 collides with depth/level markers: ["a\u0001\u0004b"] and ["a","b"] get identical keys
//@ fns: convert_to_comparable
#[kani::proof]
#[kani::unwind(5)]
#[kani::stub(crate::parser::parse_value, no_parse_value)]
#[kani::stub(std::ptr::drop_in_place, noop_drop)]
fn c14_kf_string_markers() {
    let a = B::build(&arr(&[leaf(K_STR, 2), leaf(K_NULL, 0)]));
    let b = B::build(&arr(&[leaf(K_STR, 1), leaf(K_NULL, 0)]));
    let c = compare(a.bytes(), b.bytes()).unwrap();
    assert!(key_order(&a, &b) == c, "KNOWN F7a: key order == compare for strings containing marker bytes");
}
//@ props: C14
//@ timeout: 600
//@ expect: known:F7b
//@ desc: recorded finding F7b: integers beyond 2^53 are keyed by their nearest double, so distinct integers share a key
//@ fns: convert_to_comparable
#[kani::proof]
#[kani::unwind(5)]
#[kani::stub(crate::parser::parse_value, no_parse_value)]
#[kani::stub(std::ptr::drop_in_place, noop_drop)]
fn c14_kf_big_integers() {
    let a = B::build(&leaf(K_NUM, 9));
    let b = B::build(&leaf(K_NUM, 9));
    kani::assume(matches!(a.num(&a.node(a.root)), Number::UInt64(_)) && matches!(b.num(&b.node(b.root)), Number::UInt64(_)));
    let c = compare(a.bytes(), b.bytes()).unwrap();
    assert!(key_order(&a, &b) == c, "KNOWN F7b: key order == compare for integers beyond 2^53");
}
//@ props: C14
//@ timeout: 600
//@ expect: known:F7c
//@ desc: recorded finding F7c: -0.0 and 0.0 compare Equal but have different keys
//@ fns: convert_to_comparable
#[kani::proof]
#[kani::unwind(5)]
#[kani::stub(crate::parser::parse_value, no_parse_value)]
#[kani::stub(std::ptr::drop_in_place, noop_drop)]
fn c14_kf_signed_zero() {
    let a = B::build(&leaf(K_NUM, 9));
    let b = B::build(&leaf(K_NUM, 1));
    kani::assume(matches!(a.num(&a.node(a.root)), Number::Float64(f) if f == 0.0));
    let c = compare(a.bytes(), b.bytes()).unwrap();
    assert!(key_order(&a, &b) == c, "KNOWN F7c: key order == compare for signed zeros");
}

//@ props: C14
//@ timeout: 300
//@ expect: twin
//@ desc: vacuity twin: keys of two arbitrary 1-byte strings claimed never equal — must be refuted
//@ fns: convert_to_comparable
#[kani::proof]
#[kani::unwind(5)]
#[kani::stub(crate::parser::parse_value, no_parse_value)]
#[kani::stub(std::ptr::drop_in_place, noop_drop)]
fn c14_twin_must_fail() {
    let (a, b) = (B::build(&leaf(K_STR, 1)), B::build(&leaf(K_STR, 1)));
    assert!(key_order(&a, &b) != Ordering::Equal, "TWIN: deliberately false");
}

//@ props: UNREACHED-C14
//@ timeout: 1800
//@ harness: c14_pairs_4, c14_pairs_5
//@ desc: [[x],y] vs [[x',y']] and [{k:n},s,x] vs [{k':n',k'':y}] (nested container followed by siblings): CBMC ERROR / out of memory at 28 GB
//@ fns: convert_to_comparable, compare
harness!(c14_pairs_4, pairs(4, 0, 0));
harness!(c14_pairs_5, pairs(5, 0, 0));
