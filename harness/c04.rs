//! C04 — compare is a total order matching value equality and the documented ranking.
use super::bdoc::*;
use super::common::*;
use crate::functions::compare;
use core::cmp::Ordering;

fn check(a: &B, b: &B) -> Ordering {
    let r = compare(a.bytes(), b.bytes());
    assert!(r.is_ok(), "compare of two valid documents is Ok");
    let ab = r.unwrap();
    assert!(ab == ref_cmp(a, a.root, b, b.root), "compare follows the documented ranking, element/member order and numeric order");
    let ba = compare(b.bytes(), a.bytes()).unwrap();
    assert!(ab == ba.reverse(), "antisymmetric");
    ab
}

macro_rules! harness {
    ($name:ident, $body:expr) => {
        #[kani::proof]
        #[kani::unwind(5)]
        #[kani::stub(crate::parser::parse_value, no_parse_value)]
        #[kani::stub(std::ptr::drop_in_place, noop_drop)]
        fn $name() {
            $body
        }
    };
}

// ---- scalar vs scalar: left class fixed per harness, right class case-split 11 ways
fn ss(first: usize) {
    // right class j >= first only: check() also runs compare(b, a), so (j, first) is executed too
    split1(NCLS - first, |d| {
        let j = first + d;
        let a = B::build(&lf(CLS[first]));
        let b = B::build(&lf(CLS[j]));
        let ab = check(&a, &b);
        assert!(compare(a.bytes(), a.bytes()).unwrap() == Ordering::Equal, "reflexive");
        kani::cover!(j == first && ab == Ordering::Equal, "equal scalars of the same class");
    });
}
//@ props: C04
//@ timeout: 900
//@ harness: c04_ss_0, c04_ss_1, c04_ss_2, c04_ss_3, c04_ss_4, c04_ss_5, c04_ss_6, c04_ss_7, c04_ss_8, c04_ss_9, c04_ss_10
//@ desc: scalar document vs scalar document; left (kind,width) class i fixed per harness, right class case-split over the classes j >= i (both argument orders are executed in each arm, so all 121 ordered class pairs are covered); inside a class every canonical number payload of that width (any representation) / every UTF-8 string: compare == documented ranking, strings bytewise, numbers by Number::cmp (proved exact in C18); antisymmetric; reflexive
//@ fns: compare, compare_scalar, jentry_compare_level, Number::decode, Number::cmp
//@ bounds: strings <= 2 bytes; numbers unbounded
//@ stubs: parse_value -> panic (text fallback proved unreachable) | drop_in_place -> no-op (leak model)
//@ outside: strings longer than 2 bytes
harness!(c04_ss_0, ss(0));
harness!(c04_ss_1, ss(1));
harness!(c04_ss_2, ss(2));
harness!(c04_ss_3, ss(3));
harness!(c04_ss_4, ss(4));
harness!(c04_ss_5, ss(5));
harness!(c04_ss_6, ss(6));
harness!(c04_ss_7, ss(7));
harness!(c04_ss_8, ss(8));
harness!(c04_ss_9, ss(9));
harness!(c04_ss_10, ss(10));

// ---- [x0,x1] vs [y0,y1]: first elements from a fixed class pair, second elements case-split
fn aa2(c0: (u8, usize), d0: (u8, usize), n: usize) {
    split2(n, n, |i, j| {
        let a = B::build(&arr(&[lf(c0), lf(CLS_T[i])]));
        let b = B::build(&arr(&[lf(d0), lf(CLS_T[j])]));
        let ab = check(&a, &b);
        let first_eq = ref_cmp(&a, a.node(a.root).kids[0], &b, b.node(b.root).kids[0]) == Ordering::Equal;
        kani::cover!(first_eq || ab != Ordering::Equal, "arm reached");
        kani::cover!(c0.0 != K_NUM || c0.1 == 1 || (first_eq && ab != Ordering::Equal), "decided by the second element after equal first elements");
    });
}
//@ props: C04
//@ timeout: 900
//@ harness: c04_aa2q_n2n9, c04_aa2q_s1s1
//@ desc: [x0,x1] vs [y0,y1]: first elements from a class pair that can be equal (numbers of encoded widths 2 and 9 such as 2 vs 2.0; 1-byte strings); second elements case-split over {null, number width 2} x same; element-wise comparison with each side advancing by its own payload width
//@ fns: compare, compare_array, compare_scalar
//@ bounds: 2 elements per array
//@ stubs: parse_value -> panic | drop_in_place -> no-op
harness!(c04_aa2q_n2n9, aa2((K_NUM, 2), (K_NUM, 9), 2));
harness!(c04_aa2q_s1s1, aa2((K_STR, 1), (K_STR, 1), 2));
//@ props: C04
//@ tier: thorough
//@ timeout: 3600
//@ harness: c04_aa2_n2n9, c04_aa2_n9n2, c04_aa2_n1n5, c04_aa2_s1s1, c04_aa2_s2s2, c04_aa2_nullnull, c04_aa2_tt
//@ desc: [x0,x1] vs [y0,y1]: class pair of the first elements fixed per harness (numbers of different encoded widths, strings, null, true); second elements case-split 3x3
//@ fns: compare, compare_array, compare_scalar
//@ bounds: 2 elements per array; strings <= 2 bytes
//@ stubs: parse_value -> panic | drop_in_place -> no-op
harness!(c04_aa2_n2n9, aa2((K_NUM, 2), (K_NUM, 9), 3));
harness!(c04_aa2_n9n2, aa2((K_NUM, 9), (K_NUM, 2), 3));
harness!(c04_aa2_n1n5, aa2((K_NUM, 1), (K_NUM, 5), 3));
harness!(c04_aa2_s1s1, aa2((K_STR, 1), (K_STR, 1), 3));
harness!(c04_aa2_s2s2, aa2((K_STR, 2), (K_STR, 2), 3));
harness!(c04_aa2_nullnull, aa2((K_NULL, 0), (K_NULL, 0), 3));
harness!(c04_aa2_tt, aa2((K_TRUE, 0), (K_TRUE, 0), 3));

// ---- objects: {k:x} vs {k':y} and two-member objects
fn oo1(ka: usize, kb: usize, n: usize) {
    split2(n, n, |i, j| {
        let a = B::build(&obj(&[ka], &[lf(CLS_T[i])]));
        let b = B::build(&obj(&[kb], &[lf(CLS_T[j])]));
        let ab = check(&a, &b);
        kani::cover!(ka != kb || ab == Ordering::Equal, "equal objects");
    });
}
fn oo2(n: usize) {
    split2(n, n, |i, j| {
        let a = B::build(&obj(&[1, 2], &[leaf(K_NUM, 2), lf(CLS_T[i])]));
        let b = B::build(&obj(&[1, 2], &[leaf(K_NUM, 9), lf(CLS_T[j])]));
        let ab = check(&a, &b);
        kani::cover!(ab == Ordering::Equal, "equal two-member objects with differently encoded equal numbers");
    });
}
//@ props: C04
//@ timeout: 900
//@ harness: c04_oo1q_11, c04_oo2q
//@ desc: {k:x} vs {k':y} with 1-byte symbolic keys, values case-split over {null, number width 2}; two-member objects {k:n2,kk:x} vs {k':n9,kk':y} whose first values are numbers of different width: key, then value, pair by pair, then size
//@ fns: compare, compare_object, compare_scalar
//@ bounds: <= 2 members; keys <= 2 bytes
//@ stubs: parse_value -> panic | drop_in_place -> no-op
harness!(c04_oo1q_11, oo1(1, 1, 2));
harness!(c04_oo2q, oo2(1));
//@ props: C04
//@ tier: thorough
//@ timeout: 3600
//@ harness: c04_oo1_11, c04_oo1_12, c04_oo1_01, c04_oo2
//@ desc: {k:x} vs {k':y} with key lengths (1,1),(1,2),(0,1), values case-split 3x3; two-member objects 3x3
//@ fns: compare, compare_object, compare_scalar
//@ bounds: <= 2 members; keys <= 2 bytes
//@ stubs: parse_value -> panic | drop_in_place -> no-op
harness!(c04_oo1_11, oo1(1, 1, 3));
harness!(c04_oo1_12, oo1(1, 2, 3));
harness!(c04_oo1_01, oo1(0, 1, 3));
harness!(c04_oo2, oo2(3));

// ---- different kinds and different lengths
fn shape_pair(s: usize, x: Sh, y: Sh) -> (B, B) {
    // s selects one of the container shapes for the right-hand side
    let _ = s;
    (B::build(&x), B::build(&y))
}
fn kinds(which: usize) {
    split1(NCLS, |i| {
        let a = B::build(&lf(CLS[i]));
        let b = match which {
            0 => B::build(&arr(&[])),
            1 => B::build(&arr(&[leaf(K_NULL, 0)])),
            2 => B::build(&obj(&[], &[])),
            _ => B::build(&obj(&[1], &[leaf(K_STR, 1)])),
        };
        let ab = check(&a, &b);
        kani::cover!(ab == Ordering::Greater, "scalar null above a container");
        kani::cover!(ab == Ordering::Less, "other scalars below containers");
        let _ = shape_pair;
    });
}
//@ props: C04
//@ timeout: 900
//@ harness: c04_kinds_0, c04_kinds_1, c04_kinds_2, c04_kinds_3
//@ desc: scalar document of every class vs [] / [null] / {} / {k:s}: Null > Array > Object > other scalars
//@ fns: compare
//@ bounds: as listed
//@ stubs: parse_value -> panic | drop_in_place -> no-op
harness!(c04_kinds_0, kinds(0));
harness!(c04_kinds_1, kinds(1));
harness!(c04_kinds_2, kinds(2));
harness!(c04_kinds_3, kinds(3));

fn lens() {
    split1(8, |i| {
        let x = leaf(K_NUM, 2);
        let y = leaf(K_STR, 1);
        let (a, b) = match i {
            0 => (B::build(&arr(&[])), B::build(&arr(&[x]))),
            1 => (B::build(&arr(&[x])), B::build(&arr(&[leaf(K_NUM, 9), y]))),
            2 => (B::build(&arr(&[])), B::build(&obj(&[], &[]))),
            3 => (B::build(&obj(&[], &[])), B::build(&obj(&[1], &[x]))),
            4 => (B::build(&obj(&[1], &[x])), B::build(&obj(&[1, 1], &[leaf(K_NUM, 9), y]))),
            5 => (B::build(&arr(&[x])), B::build(&obj(&[1], &[x]))),
            6 => (B::build(&arr(&[x, y, leaf(K_NULL, 0)])), B::build(&arr(&[leaf(K_NUM, 9), leaf(K_STR, 1)]))),
            _ => (B::build(&arr(&[])), B::build(&arr(&[]))),
        };
        let ab = check(&a, &b);
        kani::cover!(i == 1 && ab == Ordering::Less, "equal prefix, shorter array first");
        kani::cover!(i == 4 && ab == Ordering::Less, "equal first member, smaller object first");
    });
}
//@ props: C04
//@ timeout: 900
//@ desc: documents that differ in length or container kind: [] vs [x]; [x] vs [x',y] with x,x' numbers of different width; [] vs {}; {} vs {k:x}; {k:x} vs {k:x',k2:y}; [x] vs {k:x}; 3 vs 2 elements; [] vs []
//@ fns: compare, compare_array, compare_object
//@ bounds: <= 3 elements
//@ stubs: parse_value -> panic | drop_in_place -> no-op
#[kani::proof]
#[kani::unwind(5)]
#[kani::stub(crate::parser::parse_value, no_parse_value)]
#[kani::stub(std::ptr::drop_in_place, noop_drop)]
fn c04_lengths() {
    lens()
}

// ---- nesting: the difference sits one level down
fn nested(which: usize, n: usize) {
    split2(n, n, |i, j| {
        let (x, y) = (lf(CLS_T[i]), lf(CLS_T[j]));
        let (a, b) = match which {
            0 => (B::build(&arr(&[arr(&[x])])), B::build(&arr(&[arr(&[y])]))),
            1 => (B::build(&arr(&[arr(&[leaf(K_NUM, 2)]), x])), B::build(&arr(&[arr(&[leaf(K_NUM, 9)]), y]))),
            2 => (B::build(&arr(&[obj(&[1], &[x])])), B::build(&arr(&[arr(&[y])]))),
            3 => (B::build(&obj(&[1], &[arr(&[x])])), B::build(&obj(&[1], &[arr(&[y])]))),
            _ => (B::build(&obj(&[1], &[obj(&[1], &[x])])), B::build(&obj(&[1], &[obj(&[2], &[y])]))),
        };
        let ab = check(&a, &b);
        kani::cover!(which == 2 || which == 4 || ab == Ordering::Equal, "equal nested documents");
    });
}
//@ props: C04
//@ timeout: 900
//@ harness: c04_nestedq_1, c04_nestedq_3
//@ desc: the difference nests one level down: [[n],x] vs [[n'],y] with n,n' numbers of different width (nested lengths differ); {k:[x]} vs {k':[y]}; x,y case-split over {null, number width 2}
//@ fns: compare, compare_array, compare_object, compare_container, compare_scalar
//@ bounds: depth 2
//@ stubs: parse_value -> panic | drop_in_place -> no-op
harness!(c04_nestedq_1, nested(1, 2));
harness!(c04_nestedq_3, nested(3, 2));
//@ props: C04
//@ tier: thorough
//@ timeout: 3600
//@ harness: c04_nested_0, c04_nested_1, c04_nested_2, c04_nested_3, c04_nested_4
//@ desc: [[x]] vs [[y]]; [[n],x] vs [[n'],y]; [{k:x}] vs [[y]]; {k:[x]} vs {k:[y]}; {k:{j:x}} vs {k:{jj:y}}; x,y case-split 3x3
//@ fns: compare, compare_array, compare_object, compare_container, compare_scalar
//@ bounds: depth 2
//@ stubs: parse_value -> panic | drop_in_place -> no-op
harness!(c04_nested_0, nested(0, 3));
harness!(c04_nested_1, nested(1, 3));
harness!(c04_nested_2, nested(2, 3));
harness!(c04_nested_3, nested(3, 3));
harness!(c04_nested_4, nested(4, 3));

// ---- transitivity on triples, checked directly on the classes with non-trivial order
fn triple(c: (u8, usize), d: (u8, usize), e: (u8, usize)) {
    let (x, y, z) = (B::build(&lf(c)), B::build(&lf(d)), B::build(&lf(e)));
    let xy = compare(x.bytes(), y.bytes()).unwrap();
    let yz = compare(y.bytes(), z.bytes()).unwrap();
    let xz = compare(x.bytes(), z.bytes()).unwrap();
    if xy != Ordering::Greater && yz != Ordering::Greater {
        assert!(xz != Ordering::Greater, "transitive (<=)");
    }
    if xy == Ordering::Equal && yz == Ordering::Equal {
        assert!(xz == Ordering::Equal, "transitive (==)");
    }
    kani::cover!(xy != Ordering::Greater && yz != Ordering::Greater, "chain");
}
//@ props: C04
//@ timeout: 1200
//@ harness: c04_triple_num, c04_triple_str, c04_triple_mixed
//@ desc: transitivity of compare on triples of scalar documents: three 9-byte numbers (int/uint/float in any mix), three 2-byte strings, number/number/string; all other triples follow from agreement with the reference total order proved on pairs
//@ fns: compare, compare_scalar, Number::cmp
//@ bounds: scalar documents
//@ stubs: parse_value -> panic | drop_in_place -> no-op
harness!(c04_triple_num, triple((K_NUM, 9), (K_NUM, 9), (K_NUM, 9)));
harness!(c04_triple_str, triple((K_STR, 2), (K_STR, 2), (K_STR, 2)));
harness!(c04_triple_mixed, triple((K_NUM, 2), (K_NUM, 9), (K_STR, 1)));

//@ props: C04
//@ timeout: 300
//@ expect: twin
//@ desc: vacuity twin: two arbitrary 2-byte strings claimed never equal — must be refuted
//@ fns: compare
#[kani::proof]
#[kani::unwind(5)]
#[kani::stub(crate::parser::parse_value, no_parse_value)]
#[kani::stub(std::ptr::drop_in_place, noop_drop)]
fn c04_twin_must_fail() {
    let a = B::build(&leaf(K_STR, 2));
    let b = B::build(&leaf(K_STR, 2));
    assert!(compare(a.bytes(), b.bytes()).unwrap() != Ordering::Equal, "TWIN: deliberately false");
}
