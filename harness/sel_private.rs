//! Child module injected into src/jsonpath/selector.rs (by /verif/bin/mkwork) so that the private index
//! arithmetic of the JSONPath evaluator can be driven directly with fully symbolic operands.
use super::*;
use crate::verif::common::noop_drop;

fn any_index() -> Index {
    if kani::any() { Index::Index(kani::any()) } else { Index::LastIndex(kani::any()) }
}
fn resolve(ix: &Index, len: i64) -> i64 {
    match ix {
        Index::Index(i) => *i as i64,
        Index::LastIndex(k) => len - 1 + *k as i64,
    }
}

//@ props: C20
//@ timeout: 900
//@ desc: Selector::convert_index with EVERY index operand (plain i32 or last+k for every i32 k) and every array length 1..=4: no arithmetic overflow (overflow checks on), and the result is Some(p) exactly when the denoted position p lies inside the array
//@ fns: Selector::convert_index
//@ bounds: array length 1..=4 (select_by_indices returns early for length 0); operands unbounded
//@ stubs: drop_in_place -> no-op
#[kani::proof]
#[kani::unwind(3)]
#[kani::stub(std::ptr::drop_in_place, noop_drop)]
fn c20_convert_index_all() {
    let ix = any_index();
    let len: i32 = kani::any();
    kani::assume(len >= 1 && len <= 4);
    let r = Selector::convert_index(&ix, len);
    let p = resolve(&ix, len as i64);
    if p >= 0 && p < len as i64 {
        assert!(r == Some(p as usize), "an index inside the array resolves to its position");
    } else {
        assert!(r.is_none(), "an index outside the array selects nothing");
    }
    kani::cover!(r.is_some(), "in range");
    kani::cover!(matches!(ix, Index::LastIndex(k) if k == i32::MAX), "last + i32::MAX");
}

//@ props: C20
//@ timeout: 1800
//@ desc: Selector::convert_slice with EVERY pair of bound operands (each a plain i32 or last+k) and every array length 1..=2: no arithmetic overflow, no panic, and the result is exactly the positions p with start <= p <= end that exist in the array, in increasing order (so every returned index is below the length)
//@ fns: Selector::convert_slice
//@ bounds: array length 1..=2; operands unbounded
//@ stubs: drop_in_place -> no-op
#[kani::proof]
#[kani::unwind(3)]
#[kani::stub(std::ptr::drop_in_place, noop_drop)]
fn c20_convert_slice_all() {
    let (a, b) = (any_index(), any_index());
    let len: i32 = kani::any();
    kani::assume(len >= 1 && len <= 2);
    let mut l = 1;
    while l <= 2 {
        if len == l {
            let r = Selector::convert_slice(&a, &b, len);
            let (lo, hi) = (resolve(&a, len as i64), resolve(&b, len as i64));
            let lo_c = if lo < 0 { 0 } else { lo };
            let hi_c = if hi > len as i64 - 1 { len as i64 - 1 } else { hi };
            match &r {
                None => assert!(lo_c > hi_c || lo > hi, "nothing selected only when no position lies in the range"),
                Some(v) => {
                    assert!(lo <= hi && lo_c <= hi_c, "a range is selected only when it meets the array");
                    assert!(v.len() as i64 == hi_c - lo_c + 1, "exactly the existing positions of the range");
                    let mut k = 0;
                    while k < 3 {
                        if k < v.len() {
                            assert!(v[k] as i64 == lo_c + k as i64 && v[k] < len as usize, "positions in increasing order, all inside the array");
                        }
                        k += 1;
                    }
                }
            }
            kani::cover!(r.is_some(), "some positions");
            core::mem::forget(r);
        }
        l += 1;
    }
}
