//! C06 — editing functions produce exactly the document the edit denotes.
use super::bdoc::*;
use super::common::*;
use crate::error::Error;
use crate::functions::*;
use crate::keypath::KeyPath;
use std::borrow::Cow;
use std::collections::BTreeSet;

macro_rules! harness {
    ($name:ident, $body:expr) => {
        #[kani::proof]
        #[kani::unwind(13)]
        #[kani::stub(crate::parser::parse_value, no_parse_value)]
        #[kani::stub(crate::de::from_slice, no_from_slice)]
        #[kani::stub(std::ptr::drop_in_place, noop_drop)]
        fn $name() {
            $body
        }
    };
}

pub fn expect_ok(r: Result<(), Error>, buf: &Vec<u8>, e: &Blob) {
    assert!(r.is_ok(), "the edit succeeds on a valid input");
    assert!(same_blob(buf, e), "the output is exactly the encoding of the edited document");
}
pub fn expect_err(r: Result<(), Error>, buf: &Vec<u8>, want: Error) {
    assert!(r == Err(want), "the documented error is returned");
    assert!(buf.is_empty(), "nothing is written on a documented error");
}

/// effective position of a possibly negative index in a list of `len`: Some(p) if in range
pub fn eff_index(i: i32, len: usize) -> Option<usize> {
    let l = len as i64;
    let j = if i < 0 { l + i as i64 } else { i as i64 };
    if j < 0 || j >= l { None } else { Some(j as usize) }
}

/// children blobs of a container node
pub fn kids_blobs(d: &B, id: usize) -> ([Blob; MAXW], usize) {
    let x = d.node(id);
    let mut o = [Blob { tag: 0, b: [0; XCAP], n: 0 }; MAXW];
    let mut i = 0;
    while i < x.cnt {
        o[i] = d.blob(x.kids[i]);
        i += 1;
    }
    (o, x.cnt)
}
pub fn kids_keys(d: &B, id: usize) -> [KeyB; MAXW] {
    let x = d.node(id);
    let mut o = [KeyB { b: [0; 2], n: 0 }; MAXW];
    let mut i = 0;
    while i < x.cnt {
        o[i] = d.keyb(id, i);
        i += 1;
    }
    o
}
/// items without position p
pub fn without<T: Copy>(a: &[T; MAXW], n: usize, p: usize) -> ([T; MAXW], usize) {
    let mut o = *a;
    let mut i = p;
    while i + 1 < n {
        o[i] = a[i + 1];
        i += 1;
    }
    (o, n - 1)
}

// ---- delete_by_index
pub fn del_index(d: &B, buf: &mut Vec<u8>) {
    let root = d.node(d.root);
    let idx: i32 = kani::any();
    kani::assume(idx != i32::MIN); // i32::MIN is C20's subject (overflow in abs)
    let r = delete_by_index(d.bytes(), idx, buf);
    if root.kind != K_ARR {
        assert!(r == Err(Error::InvalidJsonType), "delete_by_index on a non-array is InvalidJsonType");
        return;
    }
    let (items, n) = kids_blobs(d, d.root);
    match eff_index(idx, n) {
        None => expect_ok(r, buf, &d.root_blob()),
        Some(p) => {
            // p is symbolic: case split so that each expected layout is concrete
            let mut k = 0;
            while k < n {
                if p == k {
                    let (it, m) = without(&items, n, k);
                    expect_ok(r.clone(), buf, &x_arr(&it[..m]));
                }
                k += 1;
            }
        }
    }
    kani::cover!(idx < 0 && eff_index(idx, n).is_some(), "negative index in range");
    kani::cover!(eff_index(idx, n).is_none() && n > 0, "out of range: no-op");
}

//@ props: C06, C07
//@ timeout: 1200
//@ harness: c06_delidx_s0
//@ desc: delete_by_index with a symbolic i32 index (all values except i32::MIN) on [x,y,s]
//@ fns: delete_by_index, delete_jsonb_by_index, ArrayBuilder::push_raw, ArrayBuilder::build_into, write_entry
//@ bounds: 3 elements
//@ stubs: parse_value, from_slice -> panic | drop_in_place -> no-op
harness!(c06_delidx_s0, shapes_split(0, &CLS_T, 2, |d| { let mut buf = Vec::new(); del_index(d, &mut buf); core::mem::forget(buf); }));
