//! C06 — editing functions produce exactly the document the edit denotes.
use super::bdoc::*;
use super::common::*;
use crate::error::Error;
use crate::functions::*;
use crate::keypath::KeyPath;
use std::borrow::Cow;
use std::collections::BTreeSet;

macro_rules! harness {
    ($name:ident, $body:expr) => {
        #[kani::proof]
        #[kani::unwind(1)]
        #[kani::stub(crate::parser::parse_value, no_parse_value)]
        #[kani::stub(crate::de::from_slice, no_from_slice)]
        #[kani::stub(std::ptr::drop_in_place, noop_drop)]
        #[kani::stub(crate::builder::ObjectBuilder::build_into, no_object_builder)]
        fn $name() {
            $body
        }
    };
}

macro_rules! harness_obj {
    ($name:ident, $body:expr) => {
        #[kani::proof]
        #[kani::unwind(1)]
        #[kani::stub(crate::parser::parse_value, no_parse_value)]
        #[kani::stub(crate::de::from_slice, no_from_slice)]
        #[kani::stub(std::ptr::drop_in_place, noop_drop)]
        fn $name() {
            $body
        }
    };
}

macro_rules! harness2 {
    ($name:ident, $body:expr) => {
        #[kani::proof]
        #[kani::unwind(2)]
        #[kani::stub(crate::parser::parse_value, no_parse_value)]
        #[kani::stub(crate::de::from_slice, no_from_slice)]
        #[kani::stub(std::ptr::drop_in_place, noop_drop)]
        #[kani::stub(crate::builder::ObjectBuilder::build_into, no_object_builder)]
        fn $name() {
            $body
        }
    };
}

pub fn expect_ok(r: Result<(), Error>, buf: &Vec<u8>, e: &Blob) {
    assert!(r.is_ok(), "the edit succeeds on a valid input");
    assert!(same_blob(buf, e), "the output is exactly the encoding of the edited document");
}
pub fn expect_err(r: Result<(), Error>, buf: &Vec<u8>, want: Error) {
    assert!(r == Err(want), "the documented error is returned");
    assert!(buf.is_empty(), "nothing is written on a documented error");
}

/// effective position of a possibly negative index in a list of `len`: Some(p) if in range
pub fn eff_index(i: i32, len: usize) -> Option<usize> {
    let l = len as i64;
    let j = if i < 0 { l + i as i64 } else { i as i64 };
    if j < 0 || j >= l { None } else { Some(j as usize) }
}

/// children blobs of a container node
pub fn kids_blobs(d: &B, id: usize) -> ([Blob; MAXW], usize) {
    let x = d.node(id);
    let mut o = [Blob { tag: 0, b: [0; XCAP], n: 0 }; MAXW];
    let mut i = 0;
    while i < x.cnt {
        o[i] = d.blob(x.kids[i]);
        i += 1;
    }
    (o, x.cnt)
}
pub fn kids_keys(d: &B, id: usize) -> [KeyB; MAXW] {
    let x = d.node(id);
    let mut o = [KeyB { b: [0; 2], n: 0 }; MAXW];
    let mut i = 0;
    while i < x.cnt {
        o[i] = d.keyb(id, i);
        i += 1;
    }
    o
}
/// items without position p
pub fn without<T: Copy>(a: &[T; MAXW], n: usize, p: usize) -> ([T; MAXW], usize) {
    let mut o = *a;
    let mut i = p;
    while i + 1 < n {
        o[i] = a[i + 1];
        i += 1;
    }
    (o, n - 1)
}

// ---- delete_by_index
/// index: every value -5..=5 by case split (constant on each path) or, with `far`, every other i32
/// except i32::MIN at once (always out of range here: no-op copy)
pub fn index_arms(far: bool, f: impl Fn(i32)) {
    let i: i32 = kani::any();
    if far {
        kani::assume((i > 5 || i < -5) && i != i32::MIN);
        f(i);
    } else {
        kani::assume(i >= -5 && i <= 5);
        let mut v = -5;
        while v <= 5 {
            if i == v {
                f(v);
            }
            v += 1;
        }
    }
}
pub fn del_index_range(d: &B, lo: i32, hi: i32) {
    let i: i32 = kani::any();
    kani::assume(i >= lo && i <= hi);
    let mut v = lo;
    while v <= hi {
        if i == v {
            del_index_one(d, v);
        }
        v += 1;
    }
}
fn del_index_one(d: &B, idx: i32) {
    let root = d.node(d.root);
    let mut buf = Vec::new();
    let r = delete_by_index(d.bytes(), idx, &mut buf);
    if root.kind != K_ARR {
        expect_err(r, &buf, Error::InvalidJsonType);
    } else {
        let (items, n) = kids_blobs(d, d.root);
        match eff_index(idx, n) {
            None => expect_ok(r, &buf, &d.root_blob()),
            Some(p) => {
                let (it, m) = without(&items, n, p);
                expect_ok(r, &buf, &x_arr(&it[..m]));
            }
        }
    }
    core::mem::forget(buf);
}
pub fn arr_insert_range(d: &B, new: &B, lo: i32, hi: i32) {
    let i: i32 = kani::any();
    kani::assume(i >= lo && i <= hi);
    let mut v = lo;
    while v <= hi {
        if i == v {
            arr_insert_one(d, new, v);
        }
        v += 1;
    }
}
fn arr_insert_one(d: &B, new: &B, pos: i32) {
    let root = d.node(d.root);
    let mut buf = Vec::new();
    let r = array_insert(d.bytes(), pos, new.bytes(), &mut buf);
    let (mut items, mut n) = kids_blobs(d, d.root);
    if root.kind != K_ARR {
        items[0] = d.root_blob();
        n = 1;
    }
    let l = n as i64;
    let j = if pos < 0 { l + pos as i64 } else { pos as i64 };
    let p = if j < 0 { 0 } else if j > l { l } else { j } as usize;
    let nb = new.root_blob();
    let mut out = [nb; MAXW + 1];
    let mut i = 0;
    while i < p {
        out[i] = items[i];
        i += 1;
    }
    out[p] = nb;
    i = p;
    while i < n {
        out[i + 1] = items[i];
        i += 1;
    }
    expect_ok(r, &buf, &x_arr(&out[..n + 1]));
    core::mem::forget(buf);
}
pub fn del_index(d: &B, far: bool) {
    let root = d.node(d.root);
    index_arms(far, |idx| {
        let mut buf = Vec::new();
        let r = delete_by_index(d.bytes(), idx, &mut buf);
        if root.kind != K_ARR {
            expect_err(r, &buf, Error::InvalidJsonType);
        } else {
            let (items, n) = kids_blobs(d, d.root);
            match eff_index(idx, n) {
                None => expect_ok(r, &buf, &d.root_blob()),
                Some(p) => {
                    let (it, m) = without(&items, n, p);
                    expect_ok(r, &buf, &x_arr(&it[..m]));
                }
            }
        }
        core::mem::forget(buf);
    });
}

// ---- array_insert: position clamped into 0..=len, negative from the end; a non-array is a one-element list
pub fn arr_insert(d: &B, new: &B, far: bool) {
    let root = d.node(d.root);
    index_arms(far, |pos| {
        let mut buf = Vec::new();
        let r = array_insert(d.bytes(), pos, new.bytes(), &mut buf);
        let (mut items, mut n) = kids_blobs(d, d.root);
        if root.kind != K_ARR {
            items[0] = d.root_blob();
            n = 1;
        }
        let l = n as i64;
        let j = if pos < 0 { l + pos as i64 } else { pos as i64 };
        let p = if j < 0 { 0 } else if j > l { l } else { j } as usize;
        let nb = new.root_blob();
        // p is symbolic only in the `far` run, where it is 0 or n
        let mut k = 0;
        while k <= n {
            if p == k {
                let mut out = [nb; MAXW + 1];
                let mut i = 0;
                while i < k {
                    out[i] = items[i];
                    i += 1;
                }
                out[k] = nb;
                i = k;
                while i < n {
                    out[i + 1] = items[i];
                    i += 1;
                }
                expect_ok(r.clone(), &buf, &x_arr(&out[..n + 1]));
            }
            k += 1;
        }
        core::mem::forget(buf);
    });
}

// ---- delete_by_name: object member, or every string element equal to the name
pub fn del_name(d: &B, nl: usize, buf: &mut Vec<u8>) {
    let root = d.node(d.root);
    let name = Name::of_len(nl);
    let r = delete_by_name(d.bytes(), name.as_str(), buf);
    if root.kind != K_ARR && root.kind != K_OBJ {
        expect_err(r, buf, Error::InvalidJsonType);
        return;
    }
    let (items, n) = kids_blobs(d, d.root);
    let keys = kids_keys(d, d.root);
    // which children go: symbolic pattern, case split over the 2^n patterns keeps layouts concrete
    let mut pat = 0usize;
    let mut i = 0;
    while i < n {
        let c = d.node(root.kids[i]);
        let gone = if root.kind == K_OBJ { name.eq_key(d, root.koff[i], root.klen[i]) } else { c.kind == K_STR && name.eq_key(d, c.off, c.len) };
        if gone {
            pat |= 1 << i;
        }
        i += 1;
    }
    let mut q = 0usize;
    while q < (1 << n) {
        if pat == q {
            let mut oi = [items[0]; MAXW];
            let mut ok = [keys[0]; MAXW];
            let mut m = 0;
            let mut i = 0;
            while i < n {
                if q & (1 << i) == 0 {
                    oi[m] = items[i];
                    ok[m] = keys[i];
                    m += 1;
                }
                i += 1;
            }
            let e = if root.kind == K_OBJ { x_obj(&ok[..m], &oi[..m]) } else { x_arr(&oi[..m]) };
            expect_ok(r.clone(), buf, &e);
        }
        q += 1;
    }
    kani::cover!(pat != 0, "something deleted");
    kani::cover!(pat == 0 && n > 0, "nothing deleted");
}

// ---- object_insert: new member in key order; existing key replaced only with the update flag
pub fn obj_insert(d: &B, new: &B, nl: usize, buf: &mut Vec<u8>) {
    let root = d.node(d.root);
    let name = Name::of_len(nl);
    let upd: bool = kani::any();
    let r = object_insert(d.bytes(), name.as_str(), new.bytes(), upd, buf);
    if root.kind != K_OBJ {
        expect_err(r, buf, Error::InvalidObject);
        return;
    }
    let (items, n) = kids_blobs(d, d.root);
    let keys = kids_keys(d, d.root);
    let nk = KeyB::of(&name);
    let nb = new.root_blob();
    // position: number of keys smaller than the new key; dup: equal to the key at that position
    let mut pos = 0;
    let mut dup = false;
    let mut i = 0;
    while i < n {
        match keys[i].cmp(&nk) {
            core::cmp::Ordering::Less => pos += 1,
            core::cmp::Ordering::Equal => dup = true,
            _ => {}
        }
        i += 1;
    }
    if dup && !upd {
        expect_err(r, buf, Error::ObjectDuplicateKey);
        return;
    }
    let mut k = 0;
    while k <= n {
        if pos == k {
            let mut oi = [nb; MAXW + 1];
            let mut ok = [nk; MAXW + 1];
            let mut i = 0;
            while i < k {
                oi[i] = items[i];
                ok[i] = keys[i];
                i += 1;
            }
            let skip = if dup { 1 } else { 0 };
            // with dup (case split below) the old member at k is replaced
            let mut s = 0;
            while s <= 1 {
                if skip == s {
                    let mut i = k + s;
                    let mut m = k + 1;
                    while i < n {
                        oi[m] = items[i];
                        ok[m] = keys[i];
                        m += 1;
                        i += 1;
                    }
                    expect_ok(r.clone(), buf, &x_obj(&ok[..m], &oi[..m]));
                }
                s += 1;
            }
        }
        k += 1;
    }
    kani::cover!(dup && upd, "existing key updated");
    kani::cover!(!dup && pos > 0 && pos < n, "inserted between two keys");
}

// ---- object_delete / object_pick by key set
pub fn obj_del_pick(d: &B, l0: usize, l1: usize, pick: bool, buf: &mut Vec<u8>) {
    let root = d.node(d.root);
    let (n0, n1) = (Name::of_len(l0), Name::of_len(l1));
    let mut set = BTreeSet::new();
    set.insert(n0.as_str());
    set.insert(n1.as_str());
    let r = if pick { object_pick(d.bytes(), &set, buf) } else { object_delete(d.bytes(), &set, buf) };
    core::mem::forget(set);
    if root.kind != K_OBJ {
        expect_err(r, buf, Error::InvalidObject);
        return;
    }
    let (items, n) = kids_blobs(d, d.root);
    let keys = kids_keys(d, d.root);
    let mut pat = 0usize;
    let mut i = 0;
    while i < n {
        let hit = n0.eq_key(d, root.koff[i], root.klen[i]) || n1.eq_key(d, root.koff[i], root.klen[i]);
        if hit == pick {
            pat |= 1 << i; // kept
        }
        i += 1;
    }
    let mut q = 0usize;
    while q < (1 << n) {
        if pat == q {
            let mut oi = [items[0]; MAXW];
            let mut ok = [keys[0]; MAXW];
            let mut m = 0;
            let mut i = 0;
            while i < n {
                if q & (1 << i) != 0 {
                    oi[m] = items[i];
                    ok[m] = keys[i];
                    m += 1;
                }
                i += 1;
            }
            expect_ok(r.clone(), buf, &x_obj(&ok[..m], &oi[..m]));
        }
        q += 1;
    }
    kani::cover!(pat != 0 && pat != (1 << n) - 1, "some members kept, some dropped");
}

// ---- concat
fn wrap_or_elems(d: &B) -> ([Blob; MAXW], usize) {
    let root = d.node(d.root);
    if root.kind == K_ARR {
        kids_blobs(d, d.root)
    } else {
        let mut o = [d.root_blob(); MAXW];
        o[0] = d.root_blob();
        (o, 1)
    }
}
pub fn concat_check(a: &B, b: &B, buf: &mut Vec<u8>) {
    let (ra, rb) = (a.node(a.root), b.node(b.root));
    let r = concat(a.bytes(), b.bytes(), buf);
    if ra.kind == K_OBJ && rb.kind == K_OBJ {
        // merge, right side wins; both sides have <= 2 members here
        let (ia, na) = kids_blobs(a, a.root);
        let (ib, nb) = kids_blobs(b, b.root);
        let (ka, kb) = (kids_keys(a, a.root), kids_keys(b, b.root));
        // left members survive unless the right side has the key; position of each right key among survivors
        // case split on the complete order pattern: for each left key, its relation to each right key
        let mut pat = 0usize;
        let mut i = 0;
        while i < na {
            let mut j = 0;
            while j < nb {
                let c = match ka[i].cmp(&kb[j]) { core::cmp::Ordering::Less => 0, core::cmp::Ordering::Equal => 1, _ => 2 };
                pat = pat * 3 + c;
                j += 1;
            }
            i += 1;
        }
        let total = { let mut t = 1; let mut z = 0; while z < na * nb { t *= 3; z += 1; } t };
        let mut q = 0usize;
        while q < total {
            if pat == q {
                // decode relation digits (concrete q)
                let mut rel = [[0usize; MAXW]; MAXW];
                let mut t = q;
                let mut i = na;
                while i > 0 {
                    let mut j = nb;
                    while j > 0 {
                        rel[i - 1][j - 1] = t % 3;
                        t /= 3;
                        j -= 1;
                    }
                    i -= 1;
                }
                // merge two sorted lists with the known relations
                let mut oi = [ia[0]; 2 * MAXW];
                let mut ok = [ka[0]; 2 * MAXW];
                let mut m = 0;
                let (mut x, mut y) = (0, 0);
                while x < na || y < nb {
                    if x < na && y < nb {
                        let c = rel[x][y];
                        if c == 0 {
                            oi[m] = ia[x]; ok[m] = ka[x]; x += 1;
                        } else if c == 1 {
                            oi[m] = ib[y]; ok[m] = kb[y]; x += 1; y += 1;
                        } else {
                            oi[m] = ib[y]; ok[m] = kb[y]; y += 1;
                        }
                    } else if x < na {
                        oi[m] = ia[x]; ok[m] = ka[x]; x += 1;
                    } else {
                        oi[m] = ib[y]; ok[m] = kb[y]; y += 1;
                    }
                    m += 1;
                }
                expect_ok(r.clone(), buf, &x_obj(&ok[..m], &oi[..m]));
            }
            q += 1;
        }
        return;
    }
    let (ea, na) = wrap_or_elems(a);
    let (eb, nb) = wrap_or_elems(b);
    let mut out = [ea[0]; 2 * MAXW];
    let mut i = 0;
    while i < na {
        out[i] = ea[i];
        i += 1;
    }
    i = 0;
    while i < nb {
        out[na + i] = eb[i];
        i += 1;
    }
    expect_ok(r, buf, &x_arr(&out[..na + nb]));
}

// ---- strip_nulls: null-valued object members go, recursively; nulls in arrays stay
fn stripped(d: &B, id: usize) -> Blob {
    let x = d.node(id);
    if x.kind == K_ARR {
        let mut oi = [d.blob(id); MAXW];
        let mut i = 0;
        while i < x.cnt {
            oi[i] = if d.node(x.kids[i]).kind <= K_STR { d.blob(x.kids[i]) } else { stripped(d, x.kids[i]) };
            i += 1;
        }
        x_arr(&oi[..x.cnt])
    } else if x.kind == K_OBJ {
        let mut oi = [d.blob(id); MAXW];
        let mut ok = [KeyB { b: [0; 2], n: 0 }; MAXW];
        let mut m = 0;
        let mut i = 0;
        while i < x.cnt {
            if d.node(x.kids[i]).kind != K_NULL {
                oi[m] = if d.node(x.kids[i]).kind <= K_STR { d.blob(x.kids[i]) } else { stripped(d, x.kids[i]) };
                ok[m] = d.keyb(id, i);
                m += 1;
            }
            i += 1;
        }
        x_obj(&ok[..m], &oi[..m])
    } else {
        d.blob(id)
    }
}
pub fn strip_check(d: &B, buf: &mut Vec<u8>) {
    let r = strip_nulls(d.bytes(), buf);
    let e = x_doc(&stripped(d, d.root));
    expect_ok(r, buf, &e);
}

// ---- build_array / build_object from parts
pub fn build_check(a: &B, b: &B, c: &B, buf: &mut Vec<u8>) {
    let parts: [&[u8]; 3] = [a.bytes(), b.bytes(), c.bytes()];
    let r = build_array(parts.iter().copied(), buf);
    expect_ok(r, buf, &x_arr(&[a.root_blob(), b.root_blob(), c.root_blob()]));
    let mut buf2 = Vec::new();
    let (k0, k1) = (Name::of_len(1), Name::of_len(2));
    kani::assume(k0.b[0] < k1.b[0] || (k0.b[0] == k1.b[0])); // k0 (1 byte) <= prefix of k1: k0 < k1 bytewise
    let items: [(&str, &[u8]); 2] = [(k0.as_str(), a.bytes()), (k1.as_str(), b.bytes())];
    let r2 = build_object(items.iter().copied(), &mut buf2);
    expect_ok(r2, &buf2, &x_obj(&[KeyB::of(&k0), KeyB::of(&k1)], &[a.root_blob(), b.root_blob()]));
    core::mem::forget(buf2);
}

// ---- delete_by_keypath (one or two elements)
fn keypath_deleted(d: &B, id: usize, steps: &[(bool, i32, Name)], depth: usize) -> Option<Blob> {
    // returns the rebuilt container, or None when the path does not apply (document unchanged)
    let x = d.node(id);
    let (is_idx, i, ref name) = steps[depth];
    let last = depth + 1 == steps.len();
    let (items, n) = kids_blobs(d, id);
    let keys = kids_keys(d, id);
    let mut hit: Option<usize> = None;
    if x.kind == K_ARR && is_idx {
        hit = eff_index(i, n);
    } else if x.kind == K_OBJ && !is_idx {
        let mut k = 0;
        while k < n {
            if name.eq_key(d, x.koff[k], x.klen[k]) {
                hit = Some(k);
            }
            k += 1;
        }
        if hit.is_none() {
            // an object is always rebuilt (unchanged content)
            return Some(d.blob(id));
        }
    } else {
        return None;
    }
    let p = hit?;
    let mut res: Option<Blob> = None;
    let mut k = 0;
    while k < n {
        if p == k {
            if last {
                let (oi, m) = without(&items, n, k);
                let (ok, _) = without(&keys, n, k);
                res = Some(if x.kind == K_OBJ { x_obj(&ok[..m], &oi[..m]) } else { x_arr(&oi[..m]) });
            } else {
                let c = d.node(x.kids[k]);
                if c.kind == K_ARR || c.kind == K_OBJ {
                    if let Some(sub) = keypath_deleted(d, x.kids[k], steps, depth + 1) {
                        let mut oi = items;
                        oi[k] = sub;
                        res = Some(if x.kind == K_OBJ { x_obj(&keys[..n], &oi[..n]) } else { x_arr(&oi[..n]) });
                    }
                }
            }
        }
        k += 1;
    }
    res
}
fn del_keypath_run(d: &B, form: usize, i: i32, j: i32) {
    let root = d.node(d.root);
    let (n, m) = (Name::of_len(1), Name::of_len(1));
    let p_i = KeyPath::Index(i);
    let p_j = KeyPath::Index(j);
    let p_n = KeyPath::Name(Cow::Borrowed(n.as_str()));
    let p_m = KeyPath::QuotedName(Cow::Borrowed(m.as_str()));
    let nn = Name { b: n.b, len: 1 };
    let mm = Name { b: m.b, len: 1 };
    let (path, steps, cnt): ([&KeyPath; 2], [(bool, i32, Name); 2], usize) = match form {
        0 => ([&p_i, &p_j], [(true, i, nn), (true, j, mm)], 1),
        1 => ([&p_n, &p_j], [(false, 0, nn), (true, j, mm)], 1),
        2 => ([&p_i, &p_j], [(true, i, nn), (true, j, mm)], 2),
        3 => ([&p_i, &p_n], [(true, i, mm), (false, 0, nn)], 2),
        4 => ([&p_n, &p_i], [(false, 0, nn), (true, i, mm)], 2),
        _ => ([&p_n, &p_m], [(false, 0, nn), (false, 0, mm)], 2),
    };
    let mut buf = Vec::new();
    let r = delete_by_keypath(d.bytes(), path[..cnt].iter().copied(), &mut buf);
    if root.kind != K_ARR && root.kind != K_OBJ {
        expect_err(r, &buf, Error::InvalidJsonType);
    } else {
        let e = match keypath_deleted(d, d.root, &steps[..cnt], 0) {
            Some(b) => b,
            None => d.root_blob(),
        };
        expect_ok(r, &buf, &e);
    }
    core::mem::forget(buf);
}
/// indices range over -4..=4 (first) and -3..=3 (second) by case split
pub fn del_keypath(d: &B, form: usize) {
    let arms = |lo: i32, hi: i32, f: &dyn Fn(i32)| {
        let i: i32 = kani::any();
        kani::assume(i >= lo && i <= hi);
        let mut v = lo;
        while v <= hi {
            if i == v {
                f(v);
            }
            v += 1;
        }
    };
    match form {
        0 | 3 | 4 => arms(-4, 4, &|i| del_keypath_run(d, form, i, 0)),
        2 => arms(-3, 3, &|i| arms(-3, 3, &|j| del_keypath_run(d, form, i, j))),
        _ => del_keypath_run(d, form, 0, 0),
    }
}

// ================= harness instances
// Measured reach (DESIGN §0.5): editors that go through ArrayBuilder with concrete structure finish in
// seconds per arm; everything that goes through ObjectBuilder (a BTreeMap<&str, Entry> with symbolic
// keys: delete_by_name on objects, object_insert/delete/pick, object concat, strip_nulls of non-empty
// objects, delete_by_keypath through objects) did not finish in 15 min for the smallest instance and is
// kept below under UNREACHED-C06 for the record.
const D3: [(u8, usize); 3] = [(K_NUM, 2), (K_STR, 1), (K_NULL, 0)];
fn with_buf(f: impl Fn(&mut Vec<u8>)) {
    let mut buf = Vec::new();
    f(&mut buf);
    core::mem::forget(buf);
}
fn new_doc(k: usize, f: impl Fn(&B)) {
    match k {
        0 => f(&B::build(&leaf(K_NUM, 9))),
        1 => f(&B::build(&leaf(K_NULL, 0))),
        2 => f(&B::build(&arr(&[leaf(K_STR, 1)]))),
        _ => f(&B::build(&obj(&[1], &[leaf(K_NUM, 2)]))),
    }
}

fn a2(f: impl Fn(&B)) { f(&B::build(&arr(&[leaf(K_NUM, 2), leaf(K_STR, 1)]))) }
fn a1(f: impl Fn(&B)) { f(&B::build(&arr(&[leaf(K_STR, 2)]))) }
//@ props: C06, C07
//@ timeout: 1200
//@ harness: c06_delidx_0, c06_delidx_m1, c06_delidx_1, c06_delidx_oob, c06_delidx_nested, c06_delidx_other, c06_delidx_far
//@ desc: delete_by_index on [n2,s1] at index 0, -1, 1 and -2 (first/last in both notations), out of range 2 and -3 (no-op copy), on [{k:n9},null] at 1 (the nested object element is kept verbatim), on {k:x,kk:y} / scalar / [] / {} (InvalidJsonType resp. no-op) and (c06_delidx_far, on []) every i32 outside -5..=5 except i32::MIN at once: output byte-identical to the README encoding of the edited tree; nothing written on the error
//@ fns: delete_by_index, delete_jsonb_by_index, ArrayBuilder::push_raw, ArrayBuilder::build_into, write_entry, reserve_jentries, replace_jentry, iterate_array
//@ bounds: 2-element arrays (a builder tree with more than two entries is not reached, DESIGN §0.5); representative indices by case split
//@ stubs: parse_value, from_slice -> panic | drop_in_place -> no-op | ObjectBuilder::build_into -> panic in array-only instances (proves the object arm of write_entry is not taken)
harness!(c06_delidx_0, a2(|d| del_index_range(d, 0, 0)));
harness!(c06_delidx_m1, a2(|d| del_index_range(d, -1, -1)));
harness!(c06_delidx_1, split1(2, |k| a2(|d| if k == 0 { del_index_range(d, 1, 1) } else { del_index_range(d, -2, -2) })));
harness!(c06_delidx_oob, split1(2, |k| a2(|d| if k == 0 { del_index_range(d, 2, 2) } else { del_index_range(d, -3, -3) })));
harness!(c06_delidx_nested, del_index_range(&B::build(&arr(&[obj(&[1], &[leaf(K_NUM, 9)]), leaf(K_NULL, 0)])), 1, 1));
harness_obj!(c06_delidx_other, split1(4, |k| with_shape(if k == 0 { 3 } else { 4 + k }, D3[0], D3[1], |d| del_index_range(d, -1, 1))));
harness!(c06_delidx_far, with_shape(6, D3[0], D3[1], |d| del_index(d, true)));

//@ props: C06, C07
//@ timeout: 1200
//@ harness: c06_arrins_0, c06_arrins_m1, c06_arrins_end, c06_arrins_clamp, c06_arrins_obj, c06_arrins_other, c06_arrins_far
//@ desc: array_insert into [s2] at position 0, -1 (before the last), 1 (= len) and the clamped positions 5 and -5 with a 9-byte number as new value, at position 1 with an object as new value, into {k:x,kk:y} / scalar / [] / {} (a non-array target counts as a one-element list; positions -1..=1) and (c06_arrins_far, on []) every i32 outside -5..=5 except MIN at once: position clamped into 0..=len, negative from the end
//@ fns: array_insert, array_insert_jsonb, ArrayBuilder::build_into, write_entry
//@ bounds: 1-element arrays before the insertion; representative positions by case split
//@ stubs: parse_value, from_slice -> panic | drop_in_place -> no-op | ObjectBuilder::build_into -> panic in array-only instances
harness!(c06_arrins_0, new_doc(0, |nw| a1(|d| arr_insert_range(d, nw, 0, 0))));
harness!(c06_arrins_m1, new_doc(0, |nw| a1(|d| arr_insert_range(d, nw, -1, -1))));
harness!(c06_arrins_end, new_doc(0, |nw| a1(|d| arr_insert_range(d, nw, 1, 1))));
harness!(c06_arrins_clamp, split1(2, |k| new_doc(0, |nw| a1(|d| if k == 0 { arr_insert_range(d, nw, 5, 5) } else { arr_insert_range(d, nw, -5, -5) }))));
harness!(c06_arrins_obj, new_doc(3, |nw| a1(|d| arr_insert_range(d, nw, 1, 1))));
harness_obj!(c06_arrins_other, split1(4, |s| new_doc(1, |nw| with_shape(if s == 0 { 3 } else { 4 + s }, D3[0], D3[1], |d| arr_insert_range(d, nw, -1, 1)))));
harness!(c06_arrins_far, new_doc(0, |nw| with_shape(6, D3[0], D3[1], |d| arr_insert(d, nw, true))));

fn cdoc(k: usize, f: impl Fn(&B)) {
    match k {
        0 => f(&B::build(&arr(&[leaf(K_NUM, 2)]))),
        1 => f(&B::build(&arr(&[]))),
        2 => f(&B::build(&leaf(K_STR, 1))),
        3 => f(&B::build(&leaf(K_NULL, 0))),
        4 => f(&B::build(&obj(&[1], &[leaf(K_NUM, 9)]))),
        5 => f(&B::build(&obj(&[], &[]))),
        _ => f(&B::build(&arr(&[arr(&[leaf(K_NULL, 0)])]))),
    }
}
fn cc(i: usize, j: usize) {
    cdoc(i, |a| cdoc(j, |b| with_buf(|buf| concat_check(a, b, buf))));
}
//@ props: C06, C07
//@ timeout: 1200
//@ harness: c06_concat_aa, c06_concat_as, c06_concat_sa, c06_concat_ss, c06_concat_oa, c06_concat_ao, c06_concat_e, c06_concat_1
//@ desc: concat: [n]+[n'] (arrays append), [n]+s and s+[n] (scalar wrapped), s+null (two scalars), {k:n}+[n'] and [n]+{k:n'} (an object becomes an element), [n]+{} / {}+[n] / [[null]]+[n] (empty object and nested array as elements), and []+x for all seven right-hand sides: output byte-identical to the README encoding of the concatenation
//@ fns: concat, concat_jsonb, ArrayBuilder::build_into, write_entry, iterate_array
//@ bounds: results of <= 2 elements
//@ stubs: parse_value, from_slice -> panic | drop_in_place -> no-op | ObjectBuilder::build_into -> panic in array-only instances
//@ outside: object + object merge (ObjectBuilder: not reached, see UNREACHED-C06)
harness!(c06_concat_aa, cc(0, 0));
harness!(c06_concat_as, cc(0, 2));
harness!(c06_concat_sa, cc(2, 0));
harness!(c06_concat_ss, cc(2, 3));
harness!(c06_concat_oa, cc(4, 0));
harness!(c06_concat_ao, cc(0, 4));
harness!(c06_concat_e, split1(3, |k| match k { 0 => cc(0, 5), 1 => cc(5, 0), _ => cc(6, 0) }));
harness!(c06_concat_1, split1(7, |j| cc(1, j)));

//@ props: C06, C07
//@ timeout: 1200
//@ harness: c06_build, c06_strip_a, c06_strip_b, c06_errors
//@ desc: build_array from three parts and build_object from two parts with keys in increasing order (parts: number, null, array, object); strip_nulls on [null,s] and null (nulls in arrays stay), on [], {} and {k:null} (a null member goes); documented errors (delete_by_name/delete_by_index/delete_by_keypath on a scalar: InvalidJsonType; object_insert/object_delete/object_pick on a non-object: InvalidObject) leave the buffer untouched
//@ fns: build_array, build_object, strip_nulls, strip_nulls_jsonb, strip_nulls_array, strip_nulls_object, delete_by_name, object_insert, object_delete, object_pick, delete_by_keypath
//@ bounds: <= 3 parts/elements
//@ stubs: parse_value, from_slice -> panic | drop_in_place -> no-op | ObjectBuilder::build_into -> panic in array-only instances (proves the object arm of write_entry is not taken)
//@ outside: build_object with keys not in increasing order (it writes members in the given order) | strip_nulls of objects that keep members and delete_by_name with a symbolic name (ObjectBuilder / symbolic match pattern: not reached)
harness!(c06_build, split2(2, 2, |i, j| new_doc(i, |a| new_doc(2 + j, |b| new_doc(0, |c| with_buf(|buf| build_check(a, b, c, buf)))))));
harness!(c06_strip_a, split1(2, |k| if k == 0 { with_buf(|b| strip_check(&B::build(&arr(&[leaf(K_NULL, 0), leaf(K_STR, 1)])), b)) } else { with_buf(|b| strip_check(&B::build(&leaf(K_NULL, 0)), b)) }));
harness_obj!(c06_strip_b, split1(3, |k| match k {
    0 => with_buf(|b| strip_check(&B::build(&arr(&[])), b)),
    1 => with_buf(|b| strip_check(&B::build(&obj(&[], &[])), b)),
    _ => with_buf(|b| strip_check(&B::build(&obj(&[1], &[leaf(K_NULL, 0)])), b)),
}));
harness_obj!(c06_errors, split1(3, |k| {
    let d = match k { 0 => B::build(&leaf(K_NUM, 2)), 1 => B::build(&arr(&[leaf(K_NULL, 0)])), _ => B::build(&leaf(K_STR, 1)) };
    let nm = Name::of_len(1);
    let root_kind = d.node(d.root).kind;
    if root_kind != K_ARR {
        with_buf(|b| expect_err(delete_by_name(d.bytes(), nm.as_str(), b), b, Error::InvalidJsonType));
        with_buf(|b| expect_err(delete_by_index(d.bytes(), 0, b), b, Error::InvalidJsonType));
        let p = KeyPath::Index(0);
        let path = [&p];
        with_buf(|b| expect_err(delete_by_keypath(d.bytes(), path.iter().copied(), b), b, Error::InvalidJsonType));
    }
    let nw = B::build(&leaf(K_TRUE, 0));
    with_buf(|b| expect_err(object_insert(d.bytes(), nm.as_str(), nw.bytes(), true, b), b, Error::InvalidObject));
    let mut set = BTreeSet::new();
    set.insert(nm.as_str());
    with_buf(|b| expect_err(object_delete(d.bytes(), &set, b), b, Error::InvalidObject));
    with_buf(|b| expect_err(object_pick(d.bytes(), &set, b), b, Error::InvalidObject));
    core::mem::forget(set);
}));

fn kdoc(k: usize, f: impl Fn(&B)) {
    let n = leaf(K_NUM, 2);
    let s = leaf(K_STR, 1);
    match k {
        0 => f(&B::build(&arr(&[n, leaf(K_NULL, 0)]))),
        1 => f(&B::build(&arr(&[arr(&[n, s])]))),
        _ => f(&B::build(&arr(&[arr(&[]), s]))),
    }
}
//@ props: C06, C07
//@ timeout: 1800
//@ harness: c06_delpath_i, c06_delpath_iiy, c06_delpath_iix
//@ desc: delete_by_keypath through arrays: {i} with i in {0,-1,2} on [n,null]; {i,j} with (i,j) in {(1,0),(0,5)} on [[n,s]] (past the array, past the nested array: unchanged) (into the nested array, into a scalar, past the end) and {(0,0),(1,0)} on [[],s]: the addressed element is removed (negative indices from the end); paths that do not resolve or run into/past scalars leave the document unchanged
//@ fns: delete_by_keypath, delete_by_keypath_jsonb, delete_jsonb_array_by_keypath, ArrayBuilder::push_array, ArrayBuilder::build_into
//@ bounds: paths <= 2 index elements, depth 2; representative indices
//@ stubs: parse_value, from_slice -> panic | drop_in_place -> no-op | ObjectBuilder::build_into -> panic in array-only instances (proves the object arm of write_entry is not taken)
//@ outside: key paths through objects (ObjectBuilder: not reached)
harness!(c06_delpath_i, split1(3, |k| kdoc(0, |d| del_keypath_run(d, 0, [0, -1, 2][k], 0))));
harness2!(c06_delpath_iiy, split1(2, |k| kdoc(1, |d| del_keypath_run(d, 2, [1, 0][k], [0, 5][k]))));
harness2!(c06_delpath_iix, split1(2, |k| kdoc(2, |d| del_keypath_run(d, 2, [0, 1][k], 0))));

//@ props: C06
//@ timeout: 300
//@ expect: twin
//@ desc: vacuity twin: concat of two arrays claimed to fail — must be refuted
//@ fns: concat
#[kani::proof]
#[kani::unwind(1)]
#[kani::stub(crate::parser::parse_value, no_parse_value)]
#[kani::stub(crate::de::from_slice, no_from_slice)]
#[kani::stub(std::ptr::drop_in_place, noop_drop)]
fn c06_twin_must_fail() {
    let a = B::build(&arr(&[leaf(K_NUM, 2)]));
    let mut buf = Vec::new();
    let r = concat(a.bytes(), a.bytes(), &mut buf);
    let bad = r.is_err();
    core::mem::forget(buf);
    assert!(bad, "TWIN: deliberately false");
}

// ---- not reached (kept for the record; not part of any check)
//@ props: UNREACHED-C06
//@ timeout: 1800
//@ harness: c06u_delpath_ii, c06u_delname_arr, c06u_delname_obj, c06u_objins, c06u_objdelpick, c06u_concat_obj, c06u_strip_nested, c06u_delpath_obj
//@ desc: ObjectBuilder-based editors on the smallest object shapes: did not finish within 15 min each (BTreeMap<&str, Entry> with symbolic keys inside an enum-tagged builder tree)
//@ fns: delete_by_name, object_insert, object_delete, object_pick, concat, strip_nulls, delete_by_keypath
harness2!(c06u_delpath_ii, split1(2, |k| kdoc(1, |d| del_keypath_run(d, 2, 0, [0, -1][k]))));
harness_obj!(c06u_delname_arr, with_buf(|b| del_name(&B::build(&arr(&[leaf(K_STR, 1), leaf(K_STR, 1), leaf(K_NUM, 2)])), 1, b)));
harness_obj!(c06u_delname_obj, with_shape(3, D3[0], D3[1], |d| with_buf(|b| del_name(d, 1, b))));
harness_obj!(c06u_objins, new_doc(0, |nw| with_shape(3, D3[0], D3[1], |d| with_buf(|b| obj_insert(d, nw, 1, b)))));
harness_obj!(c06u_objdelpick, with_shape(3, D3[0], D3[1], |d| with_buf(|b| obj_del_pick(d, 1, 2, false, b))));
harness_obj!(c06u_concat_obj, cdoc(4, |a| cdoc(4, |b| with_buf(|buf| concat_check(a, b, buf)))));
harness_obj!(c06u_strip_nested, with_buf(|b| strip_check(&B::build(&arr(&[obj(&[1, 2], &[leaf(K_NULL, 0), leaf(K_NUM, 2)])])), b)));
harness_obj!(c06u_delpath_obj, with_shape(3, D3[0], D3[1], |d| del_keypath(d, 1)));
