//! C12 — containment follows the PostgreSQL @> rules, using the same equality as compare.
use super::bdoc::*;
use super::common::*;
use crate::functions::contains;

macro_rules! harness {
    ($name:ident, $body:expr) => {
        #[kani::proof]
        #[kani::unwind(5)]
        #[kani::stub(crate::parser::parse_value, no_parse_value)]
        #[kani::stub(crate::de::from_slice, no_from_slice)]
        #[kani::stub(std::ptr::drop_in_place, noop_drop)]
        fn $name() {
            $body
        }
    };
}

fn is_scalar(k: u8) -> bool {
    k <= K_STR
}

/// b's structure and contents occur in a (PostgreSQL @>): `top` enables the array-contains-bare-scalar case
pub fn ref_contains(a: &B, ia: usize, b: &B, ib: usize, top: bool) -> bool {
    let (x, y) = (a.node(ia), b.node(ib));
    if top && x.kind == K_ARR && is_scalar(y.kind) {
        let mut f = false;
        let mut i = 0;
        while i < x.cnt {
            if is_scalar(a.node(x.kids[i]).kind) && ref_eq(a, x.kids[i], b, ib) {
                f = true;
            }
            i += 1;
        }
        return f;
    }
    if is_scalar(x.kind) || is_scalar(y.kind) {
        return is_scalar(x.kind) && is_scalar(y.kind) && ref_eq(a, ia, b, ib);
    }
    if x.kind != y.kind {
        return false;
    }
    let mut all = true;
    let mut j = 0;
    while j < y.cnt {
        let yk = b.node(y.kids[j]);
        let mut found = false;
        let mut i = 0;
        while i < x.cnt {
            let xk = a.node(x.kids[i]);
            let slot_ok = if x.kind == K_OBJ { eq_at(&a.b, x.koff[i], x.klen[i], &b.b, y.koff[j], y.klen[j]) } else { true };
            if slot_ok {
                let m = if is_scalar(yk.kind) {
                    is_scalar(xk.kind) && ref_eq(a, x.kids[i], b, y.kids[j])
                } else {
                    !is_scalar(xk.kind) && ref_contains(a, x.kids[i], b, y.kids[j], false)
                };
                if m {
                    found = true;
                }
            }
            i += 1;
        }
        if !found {
            all = false;
        }
        j += 1;
    }
    all
}

fn check(a: &B, b: &B) -> bool {
    let r = contains(a.bytes(), b.bytes());
    assert!(r == ref_contains(a, a.root, b, b.root, true), "contains(a, b) is true exactly when b's structure and contents occur in a");
    assert!(contains(a.bytes(), a.bytes()), "reflexive");
    r
}

const T3: [(u8, usize); 3] = [(K_NUM, 2), (K_NUM, 9), (K_STR, 1)];

//@ props: C12
//@ timeout: 900
//@ harness: c12_ss_a, c12_ss_b
//@ desc: scalar document vs scalar document over 5x5 (kind,width) classes: scalars contain only equals, equality by value (numbers across encodings, as compare)
//@ fns: contains, contains_jsonb, compare, compare_scalar
//@ bounds: strings <= 1 byte
//@ stubs: parse_value, from_slice -> panic (text fallback unreachable) | drop_in_place -> no-op
harness!(c12_ss_a, split2(2, NCLS_S, |i, j| { let (a, b) = (B::build(&lf(CLS_S[i + 2])), B::build(&lf(CLS_S[j]))); let r = check(&a, &b); kani::cover!(r && i == 0 && j == 3, "1 contains 1.0"); }));
harness!(c12_ss_b, split2(3, NCLS_S, |i, j| { let (a, b) = (B::build(&lf(CLS_S[[0, 1, 4][i]])), B::build(&lf(CLS_S[j]))); let r = check(&a, &b); kani::cover!(r, "equal"); }));

//@ props: C12
//@ timeout: 900
//@ harness: c12_arr2_arr3, c12_arr2_arr2
//@ desc: [x0,x1] @> [y0,y1,y2] (right side longer: order and multiplicity ignored); [x0,x1] @> [y0,y1]; numbers of encoded widths 2 and 9 and 1-byte strings in the slots, so re-typed numbers (1 vs 1.0) must match
//@ fns: contains, contains_jsonb, array_contains, compare_scalar, iterate_array
//@ bounds: <= 3 elements
//@ stubs: parse_value, from_slice -> panic | drop_in_place -> no-op
harness!(c12_arr2_arr3, split1(2, |i| { let (a, b) = (B::build(&arr(&[leaf(K_NUM, 2), lf(T3[i + 1])])), B::build(&arr(&[leaf(K_NUM, 2), leaf(K_NUM, 9), leaf(K_NUM, 2)]))); let r = check(&a, &b); kani::cover!(r, "longer right side with repeats is contained"); }));
harness!(c12_arr2_arr2, split2(2, 2, |i, j| { let (a, b) = (B::build(&arr(&[lf(T3[i]), leaf(K_STR, 1)])), B::build(&arr(&[leaf(K_STR, 1), lf(T3[j])]))); let r = check(&a, &b); kani::cover!(r, "reordered elements contained"); }));

//@ props: C12
//@ timeout: 900
//@ harness: c12_obj2_obj1, c12_obj2_obj2, c12_obj1_obj2
//@ desc: {k0:x0,k1:x1} @> {k:y} and @> {k:y0,kk:y1}; {k:x} @> {k0:y0,k1:y1}: every member of the right side must be contained under the same key; symbolic key bytes
//@ fns: contains, contains_jsonb, get_jentry_by_name, iterate_object_entries, compare_scalar
//@ bounds: <= 2 members, keys 1..2 bytes
//@ stubs: parse_value, from_slice -> panic | drop_in_place -> no-op
harness!(c12_obj2_obj1, split2(2, 2, |i, kl| { let (a, b) = (B::build(&obj(&[1, 2], &[lf(T3[i]), leaf(K_NUM, 9)])), B::build(&obj(&[1 + kl], &[leaf(K_NUM, 2)]))); let r = check(&a, &b); kani::cover!(r, "member contained"); kani::cover!(!r, "not contained"); }));
harness!(c12_obj2_obj2, split1(3, |i| { let (a, b) = (B::build(&obj(&[1, 2], &[lf(T3[i]), leaf(K_STR, 1)])), B::build(&obj(&[1, 2], &[leaf(K_NUM, 9), leaf(K_STR, 1)]))); let r = check(&a, &b); kani::cover!(r, "equal objects contained"); }));
harness!(c12_obj1_obj2, split1(2, |i| { let (a, b) = (B::build(&obj(&[1], &[lf(T3[i])])), B::build(&obj(&[1, 1], &[leaf(K_NUM, 2), leaf(K_NUM, 2)]))); let r = check(&a, &b); kani::cover!(!r, "smaller object never contains a larger one"); }));

fn mixed(i: usize, j: usize) {
    let n = leaf(K_NUM, 2);
    let a = match i {
        0 => B::build(&arr(&[n, leaf(K_STR, 1)])),
        1 => B::build(&obj(&[1], &[n])),
        2 => B::build(&arr(&[arr(&[n])])),
        3 => B::build(&arr(&[obj(&[1], &[n])])),
        4 => B::build(&obj(&[1], &[arr(&[n])])),
        _ => B::build(&obj(&[1], &[obj(&[1], &[n])])),
    };
    let b = match j {
        0 => B::build(&arr(&[])),
        1 => B::build(&obj(&[], &[])),
        2 => B::build(&arr(&[arr(&[])])),
        3 => B::build(&arr(&[obj(&[], &[])])),
        4 => B::build(&obj(&[1], &[arr(&[])])),
        _ => B::build(&obj(&[1], &[obj(&[], &[])])),
    };
    let r = check(&a, &b);
    kani::cover!(r, "contained");
    kani::cover!(!r, "not contained");
}
//@ props: C12
//@ timeout: 900
//@ harness: c12_kinds_0, c12_kinds_1, c12_kinds_2
//@ desc: container kinds and empty containers: a in {[n,s], {k:n}, [[n]], [{k:n}], {k:[n]}, {k:{j:n}}} against b in {[], {}, [[]], [{}], {k:[]}, {k:{}}}: an empty container is contained only in a container of the same kind at the same place
//@ fns: contains, contains_jsonb
//@ bounds: depth 2
//@ stubs: parse_value, from_slice -> panic | drop_in_place -> no-op
harness!(c12_kinds_0, split2(2, 6, |i, j| mixed(i, j)));
harness!(c12_kinds_1, split2(2, 6, |i, j| mixed(i + 2, j)));
harness!(c12_kinds_2, split2(2, 6, |i, j| mixed(i + 4, j)));

fn nested(k: usize, i: usize, j: usize) {
    let (x, y) = (lf(T3[i]), lf(T3[j]));
    let (a, b) = match k {
        0 => (B::build(&arr(&[arr(&[x, leaf(K_NUM, 9)]), leaf(K_STR, 1)])), B::build(&arr(&[arr(&[y])]))),
        1 => (B::build(&arr(&[leaf(K_NULL, 0), obj(&[1], &[x])])), B::build(&arr(&[obj(&[1], &[y])]))),
        2 => (B::build(&obj(&[1], &[arr(&[x, leaf(K_NUM, 9)])])), B::build(&obj(&[1], &[arr(&[y])]))),
        _ => (B::build(&obj(&[1], &[obj(&[1], &[x])])), B::build(&obj(&[1], &[obj(&[1], &[y])]))),
    };
    let r = check(&a, &b);
    kani::cover!(r, "nested containment holds");
    kani::cover!(!r, "nested containment fails");
}
//@ props: C12
//@ timeout: 900
//@ harness: c12_nested_1
//@ desc: containment one level down: [null,{k:x}] @> [{k':y}]; x,y over numbers of widths 2 and 9 (quick) and strings (thorough)
//@ fns: contains, contains_jsonb, array_contains, get_jentry_by_name
//@ bounds: depth 2
//@ stubs: parse_value, from_slice -> panic | drop_in_place -> no-op
harness!(c12_nested_1, split2(2, 2, |i, j| nested(1, i, j)));

//@ props: UNREACHED-C12
//@ tier: thorough
//@ timeout: 7200
//@ harness: c12_arr_scalar_w, c12_arr2_arr1_w, c12_nested_0_w, c12_nested_1_w, c12_nested_2_w, c12_nested_3_w
//@ desc: the array/scalar, array/array and nested families with all 3x3 class pairs (numbers of widths 2 and 9, 1-byte strings)
//@ fns: contains, contains_jsonb, array_contains, get_jentry_by_name
//@ bounds: depth 2
//@ stubs: parse_value, from_slice -> panic | drop_in_place -> no-op
harness!(c12_arr_scalar_w, split2(3, 3, |i, j| { let (a, b) = (B::build(&arr(&[lf(T3[i]), leaf(K_NUM, 9)])), B::build(&lf(T3[j]))); check(&a, &b); }));
harness!(c12_arr2_arr1_w, split2(3, 3, |i, j| { let (a, b) = (B::build(&arr(&[lf(T3[i]), leaf(K_NUM, 9)])), B::build(&arr(&[lf(T3[j])]))); check(&a, &b); }));
harness!(c12_nested_0_w, split2(3, 3, |i, j| nested(0, i, j)));
harness!(c12_nested_1_w, split2(3, 3, |i, j| nested(1, i, j)));
harness!(c12_nested_2_w, split2(3, 3, |i, j| nested(2, i, j)));
harness!(c12_nested_3_w, split2(3, 3, |i, j| nested(3, i, j)));

//@ props: C12
//@ timeout: 900
//@ desc: transitivity on arrays of numbers: [x0,x1] @> [y0,y1] and [y0,y1] @> [z0] imply [x0,x1] @> [z0], numbers of widths 2 and 9 mixed
//@ fns: contains, contains_jsonb, array_contains
//@ bounds: 2/2/1 elements
//@ stubs: parse_value, from_slice -> panic | drop_in_place -> no-op
#[kani::proof]
#[kani::unwind(5)]
#[kani::stub(crate::parser::parse_value, no_parse_value)]
#[kani::stub(crate::de::from_slice, no_from_slice)]
#[kani::stub(std::ptr::drop_in_place, noop_drop)]
fn c12_transitive() {
    let a = B::build(&arr(&[leaf(K_NUM, 2), leaf(K_NUM, 9)]));
    let b = B::build(&arr(&[leaf(K_NUM, 9), leaf(K_NUM, 2)]));
    let c = B::build(&arr(&[leaf(K_NUM, 2)]));
    let (ab, bc, ac) = (contains(a.bytes(), b.bytes()), contains(b.bytes(), c.bytes()), contains(a.bytes(), c.bytes()));
    if ab && bc {
        assert!(ac, "transitive");
    }
    kani::cover!(ab && bc, "chain");
}

//@ props: C12
//@ timeout: 300
//@ expect: twin
//@ desc: vacuity twin: an array claimed never to contain a number — must be refuted
//@ fns: contains
#[kani::proof]
#[kani::unwind(5)]
#[kani::stub(crate::parser::parse_value, no_parse_value)]
#[kani::stub(crate::de::from_slice, no_from_slice)]
#[kani::stub(std::ptr::drop_in_place, noop_drop)]
fn c12_twin_must_fail() {
    let a = B::build(&arr(&[leaf(K_NUM, 2)]));
    let b = B::build(&leaf(K_NUM, 9));
    assert!(!contains(a.bytes(), b.bytes()), "TWIN: deliberately false");
}
