//! Symbolic canonical JSONB documents for the byte-level harnesses (DESIGN §2.2, revised after
//! measurement).
//!
//! A document is a fixed buffer whose bytes start fully symbolic (`kani::any()`); the builder then
//! overwrites the *structural* bytes (container headers, entry words) with CONSTANTS following the
//! README layout, at concrete offsets, and constrains the payload bytes only by the validity
//! predicate (well-formed shortest number encodings, well-formed UTF-8, object keys strictly
//! increasing). On every symbolic-execution path the shape — container kinds, element counts, and
//! the (kind, payload width) class of every leaf — is therefore concrete, while every payload value
//! of that width (number representation and value, string bytes, key bytes) is a solver variable.
//! Harnesses case-split over a symbolic selector to range over shapes/classes.
//!
//! Why constants: measured on this code base, a single symbolic bit in an entry word makes
//! `type_code = word & 0x70000000` symbolic, the symbolic executor then enters the container arm of
//! every `match` and unwinds the recursive walkers to the bound (no result in 15 min for a
//! scalar-vs-scalar compare); enum-typed descriptors lose constants the same way (Kani lowers enum
//! payload access to byte extraction from a union), hence plain structs only.
use super::common::*;
use crate::number::Number;
use core::cmp::Ordering;

pub const CAP: usize = 64;
pub const MAXW: usize = 4; // max children of a container
pub const MAXN: usize = 16; // max nodes per document

pub const K_NULL: u8 = 0;
pub const K_TRUE: u8 = 1;
pub const K_FALSE: u8 = 2;
pub const K_NUM: u8 = 3;
pub const K_STR: u8 = 4;
pub const K_ARR: u8 = 5;
pub const K_OBJ: u8 = 6;

/// Shape: a plain tree of constants. Leaves carry (kind, payload width); containers carry children
/// and, for objects, the key length of each member.
#[derive(Clone, Copy)]
pub struct Sh<'a> {
    pub kind: u8,
    pub w: usize,
    pub kids: &'a [Sh<'a>],
    pub klens: &'a [usize],
}

pub const fn leaf(kind: u8, w: usize) -> Sh<'static> {
    Sh { kind, w, kids: &[], klens: &[] }
}
pub const fn lf(c: (u8, usize)) -> Sh<'static> {
    Sh { kind: c.0, w: c.1, kids: &[], klens: &[] }
}
pub const fn arr<'a>(kids: &'a [Sh<'a>]) -> Sh<'a> {
    Sh { kind: K_ARR, w: 0, kids, klens: &[] }
}
pub const fn obj<'a>(klens: &'a [usize], kids: &'a [Sh<'a>]) -> Sh<'a> {
    Sh { kind: K_OBJ, w: 0, kids, klens }
}

/// The scalar classes (kind, payload width).
pub const NCLS: usize = 11;
pub const CLS: [(u8, usize); NCLS] = [
    (K_NULL, 0), (K_TRUE, 0), (K_FALSE, 0),
    (K_NUM, 1), (K_NUM, 2), (K_NUM, 3), (K_NUM, 5), (K_NUM, 9),
    (K_STR, 0), (K_STR, 1), (K_STR, 2),
];
/// reduced set: one of each kind, extreme widths
pub const NCLS_S: usize = 5;
pub const CLS_S: [(u8, usize); NCLS_S] = [(K_NULL, 0), (K_FALSE, 0), (K_NUM, 2), (K_NUM, 9), (K_STR, 1)];
/// tiny set
pub const NCLS_T: usize = 3;
pub const CLS_T: [(u8, usize); NCLS_T] = [(K_NULL, 0), (K_NUM, 2), (K_STR, 1)];

/// Node of the built document (descriptor side, all fields concrete on a path).
#[derive(Clone, Copy)]
pub struct Node {
    pub kind: u8,
    /// payload location inside the buffer: scalar payload, or the nested container's own bytes
    pub off: usize,
    pub len: usize,
    pub cnt: usize,
    pub kids: [usize; MAXW],
    pub koff: [usize; MAXW],
    pub klen: [usize; MAXW],
}

const NONODE: Node = Node { kind: K_NULL, off: 0, len: 0, cnt: 0, kids: [0; MAXW], koff: [0; MAXW], klen: [0; MAXW] };

pub struct B {
    pub b: [u8; CAP],
    pub n: usize,
    pub nodes: [Node; MAXN],
    pub nn: usize,
    pub root: usize,
}

pub fn tag_byte(kind: u8) -> u8 {
    match kind {
        K_NULL => 0x00,
        K_STR => 0x10,
        K_NUM => 0x20,
        K_FALSE => 0x30,
        K_TRUE => 0x40,
        _ => 0x50,
    }
}

/// well-formed UTF-8 of b[off..off+len], len <= 4 (DFA over Unicode table 3-7)
pub fn utf8_ok_at(b: &[u8; CAP], off: usize, len: usize) -> bool {
    let mut need = 0u8;
    let mut lo = 0x80u8;
    let mut hi = 0xBFu8;
    let mut k = 0;
    while k < len {
        let c = b[off + k];
        if need == 0 {
            if c < 0x80 {
            } else if c >= 0xC2 && c <= 0xDF {
                need = 1; lo = 0x80; hi = 0xBF;
            } else if c == 0xE0 {
                need = 2; lo = 0xA0; hi = 0xBF;
            } else if (c >= 0xE1 && c <= 0xEC) || c == 0xEE || c == 0xEF {
                need = 2; lo = 0x80; hi = 0xBF;
            } else if c == 0xED {
                need = 2; lo = 0x80; hi = 0x9F;
            } else if c == 0xF0 {
                need = 3; lo = 0x90; hi = 0xBF;
            } else if c >= 0xF1 && c <= 0xF3 {
                need = 3; lo = 0x80; hi = 0xBF;
            } else if c == 0xF4 {
                need = 3; lo = 0x80; hi = 0x8F;
            } else {
                return false;
            }
        } else {
            if c < lo || c > hi {
                return false;
            }
            need -= 1; lo = 0x80; hi = 0xBF;
        }
        k += 1;
    }
    need == 0
}

/// b[off..off+w] is the shortest README encoding of some number (w in {1,2,3,5,9})
pub fn num_ok_at(b: &[u8; CAP], off: usize, w: usize) -> bool {
    let t = b[off];
    match w {
        1 => t == 0x00 || t == 0x10 || t == 0x20 || t == 0x30,
        2 => (t == 0x40 || t == 0x50) && b[off + 1] != 0,
        3 => {
            if t == 0x50 {
                b[off + 1] != 0
            } else if t == 0x40 {
                // i16 outside the i8 range
                let v = i16::from_be_bytes([b[off + 1], b[off + 2]]);
                v < -128 || v > 127
            } else {
                false
            }
        }
        5 => {
            if t == 0x50 {
                b[off + 1] != 0 || b[off + 2] != 0
            } else if t == 0x40 {
                let v = i32::from_be_bytes([b[off + 1], b[off + 2], b[off + 3], b[off + 4]]);
                v < -32768 || v > 32767
            } else {
                false
            }
        }
        _ => {
            if t == 0x50 {
                b[off + 1] != 0 || b[off + 2] != 0 || b[off + 3] != 0 || b[off + 4] != 0
            } else if t == 0x40 {
                let hi = i32::from_be_bytes([b[off + 1], b[off + 2], b[off + 3], b[off + 4]]);
                let lo_top = b[off + 5] >> 7;
                // i64 outside the i32 range: the high word is not the sign extension of the low word
                !((hi == 0 && lo_top == 0) || (hi == -1 && lo_top == 1))
            } else if t == 0x60 {
                // finite double (NaN and the infinities have their own 1-byte tags)
                !((b[off + 1] & 0x7f) == 0x7f && (b[off + 2] & 0xf0) == 0xf0)
            } else {
                false
            }
        }
    }
}

impl B {
    /// Build the document of shape `sh`: symbolic payloads, constant structure.
    pub fn build(sh: &Sh) -> B {
        let mut d = B { b: kani::any(), n: 0, nodes: [NONODE; MAXN], nn: 0, root: 0 };
        if sh.kind <= K_STR {
            // scalar document: scalar header, one entry word, payload
            d.word(0, 0x20, 0);
            d.word(4, tag_byte(sh.kind), sh.w);
            d.leaf_assume(sh.kind, 8, sh.w);
            d.root = d.push(Node { kind: sh.kind, off: 8, len: sh.w, ..NONODE });
            d.n = 8 + sh.w;
        } else {
            assert!(enc_len(sh) <= CAP, "harness document exceeds the builder capacity");
            let (id, len) = d.put(sh, 0);
            d.root = id;
            d.n = len;
        }
        d
    }
    pub fn bytes(&self) -> &[u8] {
        &self.b[..self.n]
    }
    pub fn node(&self, i: usize) -> Node {
        self.nodes[i]
    }
    fn push(&mut self, n: Node) -> usize {
        let i = self.nn;
        self.nodes[i] = n;
        self.nn += 1;
        i
    }
    fn word(&mut self, at: usize, tag: u8, low: usize) {
        self.b[at] = tag;
        self.b[at + 1] = 0;
        self.b[at + 2] = 0;
        self.b[at + 3] = low as u8;
    }
    fn leaf_assume(&mut self, kind: u8, off: usize, w: usize) {
        if kind == K_NUM {
            kani::assume(num_ok_at(&self.b, off, w));
        } else if kind == K_STR {
            kani::assume(utf8_ok_at(&self.b, off, w));
        }
    }
    /// container at offset `at`; returns (node id, encoded length)
    fn put(&mut self, sh: &Sh, at: usize) -> (usize, usize) {
        let n = sh.kids.len();
        let is_obj = sh.kind == K_OBJ;
        let mut node = Node { kind: sh.kind, off: at, len: 0, cnt: n, ..NONODE };
        self.word(at, if is_obj { 0x40 } else { 0x80 }, n);
        let mut ent = at + 4;
        let mut pay = at + 4 + 4 * (if is_obj { 2 * n } else { n });
        if is_obj {
            let mut i = 0;
            while i < n {
                let kl = sh.klens[i];
                self.word(ent, 0x10, kl);
                ent += 4;
                kani::assume(utf8_ok_at(&self.b, pay, kl));
                node.koff[i] = pay;
                node.klen[i] = kl;
                if i > 0 {
                    // canonical form: keys strictly increasing bytewise, hence unique
                    kani::assume(cmp_at(&self.b, node.koff[i - 1], node.klen[i - 1], &self.b, pay, kl) == Ordering::Less);
                }
                pay += kl;
                i += 1;
            }
        }
        let mut i = 0;
        while i < n {
            let k = sh.kids[i];
            if k.kind <= K_STR {
                self.word(ent, tag_byte(k.kind), k.w);
                self.leaf_assume(k.kind, pay, k.w);
                node.kids[i] = self.push(Node { kind: k.kind, off: pay, len: k.w, ..NONODE });
                pay += k.w;
            } else {
                let (id, len) = self.put(&k, pay);
                self.word(ent, 0x50, len);
                node.kids[i] = id;
                pay += len;
            }
            ent += 4;
            i += 1;
        }
        node.len = pay - at;
        (self.push(node), node.len)
    }

    /// the real Number stored in a number leaf (decoded by the library's own decoder, which C18 proves)
    pub fn num(&self, nd: &Node) -> Number {
        Number::decode(&self.b[nd.off..nd.off + nd.len]).unwrap()
    }

    /// the node as a stand-alone document: expected bytes of "the sub-value handed back"
    pub fn sub_doc(&self, id: usize) -> ([u8; CAP], usize) {
        let nd = self.nodes[id];
        let mut o = [0u8; CAP];
        if nd.kind <= K_STR {
            o[0] = 0x20;
            o[4] = tag_byte(nd.kind);
            o[7] = nd.len as u8;
            let mut i = 0;
            while i < nd.len {
                o[8 + i] = self.b[nd.off + i];
                i += 1;
            }
            (o, 8 + nd.len)
        } else {
            let mut i = 0;
            while i < nd.len {
                o[i] = self.b[nd.off + i];
                i += 1;
            }
            (o, nd.len)
        }
    }
}

/// encoded length of a shape (concrete)
pub fn enc_len(sh: &Sh) -> usize {
    if sh.kind <= K_STR {
        return sh.w;
    }
    let n = sh.kids.len();
    let mut t = 4 + 4 * (if sh.kind == K_OBJ { 2 * n } else { n });
    let mut i = 0;
    while i < n {
        if sh.kind == K_OBJ {
            t += sh.klens[i];
        }
        // leaves inline, so that flat documents need no recursion (harnesses run with a recursion bound of 1)
        t += if sh.kids[i].kind <= K_STR { sh.kids[i].w } else { enc_len(&sh.kids[i]) };
        i += 1;
    }
    t
}

/// lexicographic bytewise comparison (shorter prefix first)
pub fn cmp_at(a: &[u8; CAP], ao: usize, al: usize, b: &[u8; CAP], bo: usize, bl: usize) -> Ordering {
    let m = if al < bl { al } else { bl };
    let mut i = 0;
    while i < m {
        let (x, y) = (a[ao + i], b[bo + i]);
        if x < y {
            return Ordering::Less;
        }
        if x > y {
            return Ordering::Greater;
        }
        i += 1;
    }
    al.cmp(&bl)
}

pub fn eq_at(a: &[u8; CAP], ao: usize, al: usize, b: &[u8; CAP], bo: usize, bl: usize) -> bool {
    cmp_at(a, ao, al, b, bo, bl) == Ordering::Equal
}

/// got == exp[..n], element-wise (no memcmp loop over a symbolic length)
pub fn same(got: &[u8], exp: &[u8; CAP], n: usize) -> bool {
    if got.len() != n {
        return false;
    }
    let mut i = 0;
    while i < n {
        if got[i] != exp[i] {
            return false;
        }
        i += 1;
    }
    true
}

// ---------------------------------------------------------------------------------------------
// Reference ordering (documented ranking). Numbers are compared with the library's `Number::cmp`
// on the decoded numbers: its agreement with exact mathematical order is C18's subject and is
// proved there over all pairs, so it is used here as a trusted component (compositional step).

fn rank(kind: u8) -> u8 {
    match kind {
        K_NULL => 7,
        K_ARR => 6,
        K_OBJ => 5,
        K_STR => 4,
        K_NUM => 3,
        K_TRUE => 2,
        _ => 1,
    }
}

pub fn ref_cmp(a: &B, ia: usize, b: &B, ib: usize) -> Ordering {
    let (x, y) = (a.nodes[ia], b.nodes[ib]);
    let (rx, ry) = (rank(x.kind), rank(y.kind));
    if rx != ry {
        return rx.cmp(&ry);
    }
    match x.kind {
        K_STR => cmp_at(&a.b, x.off, x.len, &b.b, y.off, y.len),
        K_NUM => a.num(&x).cmp(&b.num(&y)),
        K_ARR | K_OBJ => {
            let m = if x.cnt < y.cnt { x.cnt } else { y.cnt };
            let mut i = 0;
            while i < m {
                if x.kind == K_OBJ {
                    let k = cmp_at(&a.b, x.koff[i], x.klen[i], &b.b, y.koff[i], y.klen[i]);
                    if k != Ordering::Equal {
                        return k;
                    }
                }
                let o = ref_cmp(a, x.kids[i], b, y.kids[i]);
                if o != Ordering::Equal {
                    return o;
                }
                i += 1;
            }
            x.cnt.cmp(&y.cnt)
        }
        _ => Ordering::Equal,
    }
}

/// value equality as JSON values (numbers by numeric value)
pub fn ref_eq(a: &B, ia: usize, b: &B, ib: usize) -> bool {
    ref_cmp(a, ia, b, ib) == Ordering::Equal
}

/// identical: same JSON value in the same number encoding (C13's element identity) = same bytes
pub fn ref_identical(a: &B, ia: usize, b: &B, ib: usize) -> bool {
    let (x, y) = (a.nodes[ia], b.nodes[ib]);
    x.kind == y.kind && eq_at(&a.b, x.off, x.len, &b.b, y.off, y.len)
}

/// case split over one class table: `f(i, class)` runs with constant class on each path
pub fn split1(n: usize, f: impl Fn(usize)) {
    let s: usize = kani::any();
    kani::assume(s < n);
    let mut i = 0;
    while i < n {
        if s == i {
            f(i);
        }
        i += 1;
    }
}

pub fn split2(n: usize, m: usize, f: impl Fn(usize, usize)) {
    let s: usize = kani::any();
    let t: usize = kani::any();
    kani::assume(s < n && t < m);
    let mut i = 0;
    while i < n {
        let mut j = 0;
        while j < m {
            if s == i && t == j {
                f(i, j);
            }
            j += 1;
        }
        i += 1;
    }
}

// ---------------------------------------------------------------------------------------------
// Shape catalogue shared by the single-document properties. `k` picks the shape, (i, j) the classes
// of its two variable leaves (from table `t`); `f` receives the built document.
pub const NSHAPES: usize = 10;
pub fn with_shape(k: usize, ci: (u8, usize), cj: (u8, usize), f: impl Fn(&B)) {
    let (x, y) = (lf(ci), lf(cj));
    match k {
        0 => f(&B::build(&arr(&[x, y, leaf(K_STR, 1)]))),
        1 => f(&B::build(&arr(&[arr(&[x]), y]))),
        2 => f(&B::build(&arr(&[x, obj(&[1], &[y]), leaf(K_NUM, 2)]))),
        3 => f(&B::build(&obj(&[1, 2], &[x, y]))),
        4 => f(&B::build(&obj(&[0, 1], &[x, arr(&[y])]))),
        5 => f(&B::build(&x)),
        6 => f(&B::build(&arr(&[]))),
        7 => f(&B::build(&obj(&[], &[]))),
        8 => f(&B::build(&obj(&[1, 1, 2], &[obj(&[1], &[x]), y, leaf(K_NULL, 0)]))),
        // a longer key that sorts before a shorter one ("ab" < "b"), then a third
        _ => f(&B::build(&obj(&[2, 1, 1], &[x, y, leaf(K_TRUE, 0)]))),
    }
}

/// all (i, j) class pairs from table `t[..n]` on shape k
pub fn shapes_split(k: usize, t: &[(u8, usize)], n: usize, f: impl Fn(&B)) {
    if k >= 5 && k <= 7 {
        // one or zero variable leaves
        split1(if k == 5 { n } else { 1 }, |i| with_shape(k, t[i], t[0], |d| f(d)));
    } else {
        split2(n, n, |i, j| with_shape(k, t[i], t[j], |d| f(d)));
    }
}

/// symbolic name of CONCRETE length len <= 2 as &str (well-formed UTF-8 assumed)
pub struct Name {
    pub b: [u8; 2],
    pub len: usize,
}
impl Name {
    pub fn of_len(len: usize) -> Name {
        let b: [u8; 2] = kani::any();
        let mut c = [0u8; CAP];
        c[0] = b[0];
        c[1] = b[1];
        kani::assume(utf8_ok_at(&c, 0, len));
        Name { b, len }
    }
    pub fn as_str(&self) -> &str {
        unsafe { core::str::from_utf8_unchecked(&self.b[..self.len]) }
    }
    pub fn eq_key(&self, d: &B, off: usize, len: usize) -> bool {
        if len != self.len {
            return false;
        }
        let mut i = 0;
        while i < len {
            if d.b[off + i] != self.b[i] {
                return false;
            }
            i += 1;
        }
        true
    }
    pub fn eq_key_ignore_case(&self, d: &B, off: usize, len: usize) -> bool {
        if len != self.len {
            return false;
        }
        let mut i = 0;
        while i < len {
            if lower(d.b[off + i]) != lower(self.b[i]) {
                return false;
            }
            i += 1;
        }
        true
    }
}
pub fn lower(c: u8) -> u8 {
    if c >= b'A' && c <= b'Z' { c + 32 } else { c }
}

// ---------------------------------------------------------------------------------------------
// Expected outputs of editing functions, composed from pieces of the input documents following the
// README layout. A Blob is "an element as it sits inside a container": entry type byte + bytes.
pub const XCAP: usize = 64;
#[derive(Clone, Copy)]
pub struct Blob {
    pub tag: u8,
    pub b: [u8; XCAP],
    pub n: usize,
}
#[derive(Clone, Copy)]
pub struct KeyB {
    pub b: [u8; 2],
    pub n: usize,
}

impl B {
    /// node as an element blob
    pub fn blob(&self, id: usize) -> Blob {
        let x = self.nodes[id];
        let mut o = Blob { tag: tag_byte(x.kind), b: [0; XCAP], n: x.len };
        let mut i = 0;
        while i < x.len {
            o.b[i] = self.b[x.off + i];
            i += 1;
        }
        o
    }
    /// the whole document as an element blob (scalar documents lose their 8-byte wrapper)
    pub fn root_blob(&self) -> Blob {
        self.blob(self.root)
    }
    pub fn keyb(&self, id: usize, i: usize) -> KeyB {
        let x = self.nodes[id];
        let mut k = KeyB { b: [0; 2], n: x.klen[i] };
        let mut j = 0;
        while j < x.klen[i] {
            k.b[j] = self.b[x.koff[i] + j];
            j += 1;
        }
        k
    }
}

impl KeyB {
    pub fn of(n: &Name) -> KeyB {
        KeyB { b: n.b, n: n.len }
    }
    pub fn cmp(&self, o: &KeyB) -> Ordering {
        let m = if self.n < o.n { self.n } else { o.n };
        let mut i = 0;
        while i < m {
            if self.b[i] < o.b[i] {
                return Ordering::Less;
            }
            if self.b[i] > o.b[i] {
                return Ordering::Greater;
            }
            i += 1;
        }
        self.n.cmp(&o.n)
    }
}

/// array container holding the given elements, as a (container) blob
pub fn x_arr(items: &[Blob]) -> Blob {
    let n = items.len();
    let mut o = Blob { tag: 0x50, b: [0; XCAP], n: 0 };
    o.b[0] = 0x80;
    o.b[3] = n as u8;
    let mut at = 4 + 4 * n;
    let mut i = 0;
    while i < n {
        let it = items[i];
        o.b[4 + 4 * i] = it.tag;
        o.b[4 + 4 * i + 3] = it.n as u8;
        let mut j = 0;
        while j < it.n {
            o.b[at + j] = it.b[j];
            j += 1;
        }
        at += it.n;
        i += 1;
    }
    o.n = at;
    o
}

/// object container with the given members (keys must already be in canonical order)
pub fn x_obj(keys: &[KeyB], items: &[Blob]) -> Blob {
    let n = items.len();
    let mut o = Blob { tag: 0x50, b: [0; XCAP], n: 0 };
    o.b[0] = 0x40;
    o.b[3] = n as u8;
    let mut at = 4 + 8 * n;
    let mut i = 0;
    while i < n {
        let k = keys[i];
        o.b[4 + 4 * i] = 0x10;
        o.b[4 + 4 * i + 3] = k.n as u8;
        let mut j = 0;
        while j < k.n {
            o.b[at + j] = k.b[j];
            j += 1;
        }
        at += k.n;
        i += 1;
    }
    i = 0;
    while i < n {
        let it = items[i];
        o.b[4 + 4 * n + 4 * i] = it.tag;
        o.b[4 + 4 * n + 4 * i + 3] = it.n as u8;
        let mut j = 0;
        while j < it.n {
            o.b[at + j] = it.b[j];
            j += 1;
        }
        at += it.n;
        i += 1;
    }
    o.n = at;
    o
}

/// got == blob bytes
pub fn same_blob(got: &[u8], e: &Blob) -> bool {
    if got.len() != e.n {
        return false;
    }
    let mut i = 0;
    while i < e.n {
        if got[i] != e.b[i] {
            return false;
        }
        i += 1;
    }
    true
}

/// a blob as a stand-alone document: containers as they are, scalars wrapped in the scalar header
pub fn x_doc(e: &Blob) -> Blob {
    if e.tag == 0x50 {
        return *e;
    }
    let mut o = Blob { tag: e.tag, b: [0; XCAP], n: 8 + e.n };
    o.b[0] = 0x20;
    o.b[4] = e.tag;
    o.b[7] = e.n as u8;
    let mut j = 0;
    while j < e.n {
        o.b[8 + j] = e.b[j];
        j += 1;
    }
    o
}
