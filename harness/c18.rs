//! C18 — numbers: exact codec, malformed bytes rejected, total order by value, exact views.
use super::common::*;
use crate::number::Number;
use core::cmp::Ordering;

fn same_repr(a: &Number, b: &Number) -> bool {
    match (a, b) {
        (Number::Int64(x), Number::Int64(y)) => x == y,
        (Number::UInt64(x), Number::UInt64(y)) => x == y,
        (Number::Float64(x), Number::Float64(y)) => {
            (x.to_bits() == y.to_bits()) || (x.is_nan() && y.is_nan())
        }
        _ => false,
    }
}

/// H1: encode is the README shortest form; decode gives the number back exactly; re-encode identical.
//@ props: C18, C01
//@ tier: quick
//@ timeout: 600
//@ desc: any Number (3 representations x all 64-bit patterns): compact_encode == README shortest form, decode returns the same representation and bits, re-encode identical
//@ fns: Number::compact_encode, Number::decode
//@ bounds: none on values; loops unwound 10 (9 payload bytes)
#[kani::proof]
#[kani::unwind(5)]
fn c18_codec_roundtrip() {
    let n = any_number();
    let mut out = [0u8; 12];
    let w = {
        let mut cur: &mut [u8] = &mut out[..];
        let r = n.compact_encode(&mut cur);
        assert!(r.is_ok());
        r.unwrap()
    };
    let (sb, sl) = spec_num(&n);
    assert!(w == sl, "encoded length is the shortest form");
    let mut i = 0;
    while i < 9 {
        if i < sl {
            assert!(out[i] == sb[i], "encoded bytes follow the documented layout");
        }
        i += 1;
    }
    let d = Number::decode(&out[..w]);
    assert!(d.is_ok());
    let d = d.unwrap();
    // Int64(0) is stored as the shared zero tag and comes back unsigned: same value.
    let expect_same = !matches!(n, Number::Int64(0));
    if expect_same {
        assert!(same_repr(&n, &d), "decode(encode(n)) is n, bit for bit");
    } else {
        assert!(matches!(d, Number::UInt64(0)));
    }
    let mut out2 = [0u8; 12];
    let w2 = {
        let mut cur: &mut [u8] = &mut out2[..];
        d.compact_encode(&mut cur).unwrap()
    };
    assert!(w2 == w);
    let mut i = 0;
    while i < 9 {
        if i < w {
            assert!(out2[i] == out[i], "re-encoding reproduces the bytes");
        }
        i += 1;
    }
    kani::cover!(w == 1, "1-byte form");
    kani::cover!(w == 2, "2-byte form");
    kani::cover!(w == 3, "3-byte form");
    kani::cover!(w == 5, "5-byte form");
    kani::cover!(w == 9, "9-byte form");
    kani::cover!(matches!(n, Number::Float64(f) if f.is_nan()), "NaN");
}

/// H2: arbitrary bytes (0..=10) into Number::decode: never panics; Ok exactly for the legal
/// tag/length combinations.
//@ props: C18, C10
//@ timeout: 600
//@ desc: arbitrary byte string of length 0..=10 into Number::decode: no panic; Ok exactly for the 7 legal tag/length combinations
//@ fns: Number::decode
//@ bounds: length <= 10 bytes (longest legal encoding is 9)
//@ outside: number payloads longer than 10 bytes
#[kani::proof]
#[kani::unwind(5)]
fn c18_decode_malformed() {
    let buf: [u8; 10] = kani::any();
    let len: usize = kani::any();
    kani::assume(len <= 10);
    let r = Number::decode(&buf[..len]);
    let legal = len >= 1
        && match buf[0] {
            0x00 | 0x10 | 0x20 | 0x30 => len == 1,
            0x40 | 0x50 => len == 2 || len == 3 || len == 5 || len == 9,
            0x60 => len == 9,
            _ => false,
        };
    assert!(r.is_ok() == legal, "Ok exactly for well-formed number bytes");
    kani::cover!(legal, "a legal encoding");
    kani::cover!(!legal && len > 0, "an illegal non-empty encoding");
    kani::cover!(len == 0, "empty input");
}

fn check_pair(a: &Number, b: &Number) -> Ordering {
    let ab = a.cmp(b);
    let ba = b.cmp(a);
    assert!(a.cmp(a) == Ordering::Equal, "reflexive");
    assert!(b.cmp(b) == Ordering::Equal, "reflexive");
    assert!(ab == ba.reverse(), "antisymmetric");
    assert!(ab == ref_num_cmp(a, b), "ordering follows the mathematical values");
    assert!((a == b) == (ab == Ordering::Equal), "== agrees with cmp");
    assert!(a.partial_cmp(b) == Some(ab), "partial_cmp agrees with cmp");
    ab
}

fn any_int() -> Number {
    if kani::any() { Number::Int64(kani::any()) } else { Number::UInt64(kani::any()) }
}

/// H3a-1: integer/integer pairs (signed and unsigned in every combination).
//@ props: C18, C04
//@ timeout: 600
//@ desc: every pair of integers in every signed/unsigned combination: cmp reflexive, antisymmetric, equal to i128 comparison; == and partial_cmp agree
//@ fns: Number::cmp, Number::eq, Number::partial_cmp
//@ bounds: none (full 64-bit, all pairs)
#[kani::proof]
#[kani::unwind(4)]
fn c18_order_int_int() {
    let a = any_int();
    let b = any_int();
    let ab = check_pair(&a, &b);
    kani::cover!(matches!((&a, &b), (Number::Int64(_), Number::UInt64(_))) && ab == Ordering::Equal, "int == uint");
    kani::cover!(matches!((&a, &b), (Number::UInt64(_), Number::Int64(x)) if *x < 0), "uint vs negative int");
}

/// H3a-2: float/float pairs (NaN greatest and equal to itself, -0.0 == 0.0).
//@ props: C18, C04
//@ timeout: 600
//@ desc: every pair of doubles (all bit patterns): order by value, NaN greatest and equal to itself, -0.0 == 0.0
//@ fns: Number::cmp, Number::eq
//@ bounds: none (all 2^128 pairs of bit patterns)
#[kani::proof]
#[kani::unwind(4)]
fn c18_order_float_float() {
    let a = Number::Float64(f64::from_bits(kani::any()));
    let b = Number::Float64(f64::from_bits(kani::any()));
    let ab = check_pair(&a, &b);
    kani::cover!(ab == Ordering::Equal && matches!((&a,&b),(Number::Float64(x),Number::Float64(y)) if x.to_bits()!=y.to_bits() && !x.is_nan()), "signed zeros equal");
}

/// integer vs float, float restricted to one exponent class (the classes partition all doubles)
fn int_float_class(lo_exp: u64, hi_exp: u64) {
    let a = any_int();
    let bits: u64 = kani::any();
    let e = (bits >> 52) & 0x7ff;
    kani::assume(e >= lo_exp && e <= hi_exp);
    let b = Number::Float64(f64::from_bits(bits));
    let ab = check_pair(&a, &b);
    kani::cover!(ab == Ordering::Equal, "integer equal to a float");
    kani::cover!(ab == Ordering::Less, "integer below a float");
    kani::cover!(ab == Ordering::Greater, "integer above a float");
}

/// H3a-3: |f| < 1, zeros, subnormals (biased exponent 0..=1022)
//@ props: C18, C04
//@ timeout: 900
//@ desc: every integer (i64 or u64) against every double with |f| < 1 (zeros, subnormals): both argument orders agree with exact comparison on the bit pattern
//@ fns: Number::cmp, cmp_int_float
//@ bounds: none inside the class; the four int/float classes partition all doubles by biased exponent (0..=1022)
#[kani::proof]
#[kani::unwind(4)]
fn c18_order_int_float_small() { int_float_class(0, 1022) }

/// H3a-4: 1 <= |f| < 2^53: floats that may carry a fraction (biased exponent 1023..=1075)
//@ props: C18, C04
//@ timeout: 900
//@ desc: every integer against every double with 1 <= |f| < 2^53 (fractional parts possible)
//@ fns: Number::cmp, cmp_int_float
//@ bounds: biased exponent 1023..=1075, otherwise unbounded
#[kani::proof]
#[kani::unwind(4)]
fn c18_order_int_float_frac() { int_float_class(1023, 1075) }

/// H3a-5: 2^53 <= |f| < 2^64: integer-valued floats spaced more than 1 apart — where a lossy
/// int->f64 conversion makes distinct integers look equal (biased exponent 1076..=1086)
//@ props: C18, C04
//@ timeout: 900
//@ desc: every integer against every double with 2^53 <= |f| < 2^64 (integers further than 1 apart; lossy int->f64 conversion would equate distinct integers)
//@ fns: Number::cmp, cmp_int_float
//@ bounds: biased exponent 1076..=1086, otherwise unbounded
#[kani::proof]
#[kani::unwind(4)]
fn c18_order_int_float_big() { int_float_class(1076, 1086) }

/// H3a-6: |f| >= 2^64, infinities, NaN (biased exponent 1087..=2047)
//@ props: C18, C04
//@ timeout: 900
//@ desc: every integer against every double with |f| >= 2^64, the infinities and every NaN pattern
//@ fns: Number::cmp, cmp_int_float
//@ bounds: biased exponent 1087..=2047, otherwise unbounded
#[kani::proof]
#[kani::unwind(4)]
fn c18_order_int_float_huge() {
    let a = any_int();
    let bits: u64 = kani::any();
    let e = (bits >> 52) & 0x7ff;
    kani::assume(e >= 1087);
    let b = Number::Float64(f64::from_bits(bits));
    let ab = check_pair(&a, &b);
    kani::cover!(ab == Ordering::Less, "integer below a float");
    kani::cover!(ab == Ordering::Greater, "integer above a float");
    kani::cover!(e == 2047 && (bits & 0xf_ffff_ffff_ffff) != 0, "NaN");
}

/// H3b: triples — transitivity checked directly on integers and floats of the class where the
/// historical defect lived; for all other triples it follows from H3a (agreement with a total order).
//@ props: C18, C04
//@ timeout: 900
//@ desc: triples integer / double in [2^53,2^64) / integer: <= and == transitive (all other triples follow from agreement with the exact total order proved on pairs)
//@ fns: Number::cmp
//@ bounds: middle element restricted to biased exponent 1076..=1086; integers unbounded
#[kani::proof]
#[kani::unwind(4)]
fn c18_order_transitive() {
    let a = any_int();
    let c = any_int();
    let bits: u64 = kani::any();
    let e = (bits >> 52) & 0x7ff;
    kani::assume(e >= 1076 && e <= 1086);
    let b = Number::Float64(f64::from_bits(bits));
    if a.cmp(&b) != Ordering::Greater && b.cmp(&c) != Ordering::Greater {
        assert!(a.cmp(&c) != Ordering::Greater, "transitive (<=)");
    }
    if a.cmp(&b) == Ordering::Equal && b.cmp(&c) == Ordering::Equal {
        assert!(a.cmp(&c) == Ordering::Equal, "transitive (==)");
    }
    kani::cover!(a.cmp(&b) == Ordering::Less && b.cmp(&c) == Ordering::Less, "strict chain");
    kani::cover!(a.cmp(&b) == Ordering::Equal && b.cmp(&c) == Ordering::Equal, "equal chain");
}

/// H4: views — as_i64/as_u64 exact or absent; as_f64 of an integer is the nearest double.
//@ props: C18
//@ timeout: 900
//@ desc: any Number: as_i64/as_u64 exact or absent; as_f64 of an integer is the nearest double, ties to even (exact integer arithmetic on the bit pattern)
//@ fns: Number::as_i64, Number::as_u64, Number::as_f64
//@ bounds: none (full 64-bit)
#[kani::proof]
#[kani::unwind(4)]
fn c18_views() {
    let n = any_number();
    let v = int_of(&n);
    match n {
        Number::Float64(f) => {
            assert!(n.as_i64().is_none());
            assert!(n.as_u64().is_none());
            let g = n.as_f64().unwrap();
            assert!(g.to_bits() == f.to_bits() || (g.is_nan() && f.is_nan()));
        }
        _ => {
            match n.as_i64() {
                Some(x) => assert!(x as i128 == v, "i64 view exact"),
                None => assert!(v > i64::MAX as i128 || v < i64::MIN as i128, "i64 view absent only when out of range"),
            }
            match n.as_u64() {
                Some(x) => assert!(x as i128 == v, "u64 view exact"),
                None => assert!(v < 0 || v > u64::MAX as i128, "u64 view absent only when out of range"),
            }
            // nearest double: no other double is strictly closer. Checked against the two
            // neighbours of the result using exact integer arithmetic on bit patterns.
            let f = n.as_f64().unwrap();
            assert!(f.is_finite());
            let c0 = ref_int_f64_cmp(v, f);
            if c0 != Ordering::Equal {
                // neighbour on the side of v
                let bits = f.to_bits();
                let up = c0 == Ordering::Greater; // v > f : look at next double above f
                let nb = if f == 0.0 {
                    if up { 1u64 } else { (1u64 << 63) | 1 }
                } else if (bits >> 63 == 0) == up { bits + 1 } else { bits - 1 };
                let g = f64::from_bits(nb);
                // v lies strictly between f and g (else f would not be nearest)
                assert!(ref_int_f64_cmp(v, g) == c0.reverse(), "v is bracketed by the result and its neighbour");
                // distance check: |v - f| <= |g - v| using exact scaled integers. Both f and g are
                // integers here (|v| >= 2^53 whenever rounding happens), so convert exactly.
                let fi = f64_to_i128_exact(f);
                let gi = f64_to_i128_exact(g);
                let d1 = if v > fi { v - fi } else { fi - v };
                let d2 = if v > gi { v - gi } else { gi - v };
                assert!(d1 <= d2, "the f64 view is the nearest double");
                if d1 == d2 {
                    assert!(f.to_bits() & 1 == 0, "ties to even");
                }
            }
            kani::cover!(c0 != Ordering::Equal, "integer that needs rounding");
        }
    }
}

/// exact value of a finite double with exponent >= 0 (an integer); callers guarantee |f| >= 2^52.
fn f64_to_i128_exact(f: f64) -> i128 {
    let bits = f.to_bits();
    let exp = ((bits >> 52) & 0x7ff) as i32;
    let man = (bits & 0x000f_ffff_ffff_ffff) | (1u64 << 52);
    let e = exp - 1075;
    assert!(e >= 0 && e <= 12);
    let m = (man as i128) << (e as u32);
    if bits >> 63 == 1 { -m } else { m }
}

/// Vacuity twin: same assumptions as the pair harness, deliberately false claim; must FAIL.
//@ props: C18
//@ timeout: 300
//@ expect: twin
//@ desc: vacuity twin of the integer pair harness: deliberately false claim must be refuted
//@ fns: Number::cmp
#[kani::proof]
#[kani::unwind(4)]
fn c18_twin_must_fail() {
    let a = any_int();
    let b = any_int();
    assert!(a.cmp(&b) != Ordering::Equal, "TWIN: deliberately false");
}
