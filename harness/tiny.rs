//! Feasibility probes: the smallest useful instance of each heavy family (kept for the record of
//! measured reach; tagged PROBE, not part of any property check).
use super::bdoc::*;
use super::common::*;
use crate::functions::*;
use crate::jsonpath::*;

macro_rules! probe {
    ($name:ident, $r:expr, $body:expr) => {
        #[kani::proof]
        #[kani::unwind($r)]
        #[kani::stub(std::ptr::drop_in_place, noop_drop)]
        #[kani::stub(std::string::String::from_utf8_lossy, from_utf8_lossy_model)]
        fn $name() {
            $body
        }
    };
}
//@ props: PROBE
//@ timeout: 1200
//@ harness: tiny_delete_by_index, tiny_concat, tiny_strip_nulls, tiny_select, tiny_decode_encode, tiny_serde, tiny_to_string, tiny_distinct, tiny_parse_value, tiny_parse_keypath, tiny_parse_jsonpath, tiny_delete_sym
//@ desc: feasibility probes
//@ fns: -
probe!(tiny_delete_by_index, 3, { let d = B::build(&arr(&[leaf(K_NUM, 2), leaf(K_STR, 1)])); let mut b = Vec::new(); let r = delete_by_index(d.bytes(), 0, &mut b); assert!(r.is_ok() && b.len() == 4 + 4 + 1); core::mem::forget(b); });
probe!(tiny_delete_sym, 3, { let d = B::build(&arr(&[leaf(K_NUM, 2), leaf(K_STR, 1)])); let i: i32 = kani::any(); let mut b = Vec::new(); let r = delete_by_index(d.bytes(), i, &mut b); assert!(r.is_ok()); core::mem::forget(b); });
probe!(tiny_concat, 3, { let a = B::build(&arr(&[leaf(K_NUM, 2)])); let c = B::build(&arr(&[leaf(K_STR, 1)])); let mut b = Vec::new(); let r = concat(a.bytes(), c.bytes(), &mut b); assert!(r.is_ok() && b.len() == 4 + 8 + 3); core::mem::forget(b); });
probe!(tiny_strip_nulls, 3, { let d = B::build(&obj(&[1], &[leaf(K_NULL, 0)])); let mut b = Vec::new(); let r = strip_nulls(d.bytes(), &mut b); assert!(r.is_ok() && b.len() == 4); core::mem::forget(b); });
probe!(tiny_select, 3, { let d = B::build(&arr(&[leaf(K_NUM, 2), leaf(K_STR, 1)])); let sel = Selector::new(JsonPath { paths: vec![Path::Root, Path::BracketWildcard] }, Mode::All); let (mut data, mut offs) = (Vec::new(), Vec::new()); let r = sel.select(d.bytes(), &mut data, &mut offs); assert!(r.is_ok() && offs.len() == 2); core::mem::forget((sel, data, offs)); });
probe!(tiny_decode_encode, 3, { let d = B::build(&arr(&[leaf(K_NUM, 2), leaf(K_STR, 1)])); let v = crate::de::parse_jsonb(d.bytes()); assert!(v.is_ok()); let v = v.unwrap(); let o = v.to_vec(); assert!(same(&o, &d.b, d.n)); core::mem::forget((v, o)); });
probe!(tiny_serde, 3, { let d = B::build(&arr(&[leaf(K_NUM, 2)])); let r = to_serde_json(d.bytes()); let ok = r.is_ok(); core::mem::forget(r); assert!(ok); });
probe!(tiny_to_string, 3, { let d = B::build(&leaf(K_STR, 1)); let s = to_string(d.bytes()); let n = s.len(); core::mem::forget(s); assert!(n >= 3); });
probe!(tiny_distinct, 3, { let d = B::build(&arr(&[leaf(K_NUM, 2), leaf(K_NUM, 2)])); let mut b = Vec::new(); let r = array_distinct(d.bytes(), &mut b); assert!(r.is_ok()); core::mem::forget(b); });
probe!(tiny_parse_value, 4, { let r = crate::parser::parse_value(b"[1,2]"); let ok = r.is_ok(); core::mem::forget(r); assert!(ok); });
probe!(tiny_parse_keypath, 4, { let r = crate::keypath::parse_key_paths(b"{a,1}"); let ok = r.is_ok(); core::mem::forget(r); assert!(ok); });
probe!(tiny_parse_jsonpath, 4, { let r = parse_json_path(b"$.a[1]"); let ok = r.is_ok(); core::mem::forget(r); assert!(ok); });

use crate::value::Value;
use std::borrow::Cow;
//@ props: PROBE2
//@ timeout: 900
//@ harness: p_string4, p_raw4, p_decode_only, p_encode_only, p_select_r2, p_serde_obj, p_keypath_copy, p_delname_copy, p_delidx_empty_sym, p_arrins_empty_sym, p_bytes8, p_select_filter
//@ desc: feasibility probes, round 2
//@ fns: -
probe!(p_string4, 3, { let t: [u8; 4] = kani::any(); let b = [b'"', t[0], t[1], t[2], t[3]]; let r = crate::jsonpath::string(&b); let ok = r.is_ok(); core::mem::forget(r); kani::cover!(ok); });
probe!(p_raw4, 3, { let t: [u8; 4] = kani::any(); let r = crate::jsonpath::raw_string(&t); let ok = r.is_ok(); core::mem::forget(r); kani::cover!(ok); });
probe!(p_decode_only, 3, { let d = B::build(&arr(&[leaf(K_NUM, 2), leaf(K_STR, 1)])); let v = crate::de::parse_jsonb(d.bytes()); let ok = matches!(&v, Ok(Value::Array(a)) if a.len() == 2); core::mem::forget(v); assert!(ok); });
probe!(p_encode_only, 3, { let v = Value::Array(vec![Value::Null, Value::Bool(true)]); let o = v.to_vec(); let n = o.len(); core::mem::forget((v, o)); assert!(n == 12); });
probe!(p_select_r2, 2, { let d = B::build(&arr(&[leaf(K_NUM, 2), leaf(K_STR, 1)])); let sel = Selector::new(JsonPath { paths: vec![Path::Root, Path::BracketWildcard] }, Mode::All); let (mut data, mut offs) = (Vec::new(), Vec::new()); let r = sel.select(d.bytes(), &mut data, &mut offs); let ok = r.is_ok() && offs.len() == 2; core::mem::forget((sel, data, offs)); assert!(ok); });
probe!(p_serde_obj, 3, { let d = B::build(&obj(&[1], &[leaf(K_NUM, 2)])); let r = to_serde_json(d.bytes()); let ok = matches!(&r, Ok(serde_json::Value::Object(m)) if m.len() == 1); core::mem::forget(r); assert!(ok); });
probe!(p_keypath_copy, 3, { let d = B::build(&obj(&[1, 2], &[leaf(K_NUM, 2), leaf(K_STR, 1)])); let k = d.keyb(d.root, 1); let nm = Name { b: k.b, len: k.n }; let p = crate::keypath::KeyPath::Name(Cow::Borrowed(nm.as_str())); let path = [&p]; let r = get_by_keypath(d.bytes(), path.iter().copied()); let ok = matches!(&r, Some(v) if v.len() == 9); core::mem::forget(r); assert!(ok); });
probe!(p_delname_copy, 3, { let d = B::build(&obj(&[1, 2], &[leaf(K_NUM, 2), leaf(K_STR, 1)])); let k = d.keyb(d.root, 0); let nm = Name { b: k.b, len: k.n }; let mut b = Vec::new(); let r = delete_by_name(d.bytes(), nm.as_str(), &mut b); let ok = r.is_ok() && b.len() == 4 + 8 + 2 + 1; core::mem::forget(b); assert!(ok); });
probe!(p_delidx_empty_sym, 3, { let d = B::build(&arr(&[])); let i: i32 = kani::any(); let mut b = Vec::new(); let r = delete_by_index(d.bytes(), i, &mut b); let ok = r.is_ok() && b.len() == 4; core::mem::forget(b); assert!(ok); });
probe!(p_arrins_empty_sym, 3, { let d = B::build(&arr(&[])); let nw = B::build(&leaf(K_TRUE, 0)); let i: i32 = kani::any(); let mut b = Vec::new(); let r = array_insert(d.bytes(), i, nw.bytes(), &mut b); let ok = r.is_ok() && b.len() == 8; core::mem::forget(b); assert!(ok); });
#[kani::proof]
#[kani::unwind(3)]
#[kani::stub(std::ptr::drop_in_place, noop_drop)]
#[kani::stub(core::str::from_utf8, from_utf8_model)]
fn p_bytes8() { let buf: [u8; 8] = kani::any(); let r = crate::de::parse_jsonb(&buf); let ok = r.is_ok(); core::mem::forget(r); kani::cover!(ok); }
probe!(p_select_filter, 3, { let d = B::build(&arr(&[leaf(K_NUM, 2), leaf(K_NUM, 9)])); let e = Expr::BinaryOp { op: BinaryOperator::Gt, left: Box::new(Expr::Paths(vec![Path::Current])), right: Box::new(Expr::Value(Box::new(PathValue::Number(any_number())))) }; let sel = Selector::new(JsonPath { paths: vec![Path::Root, Path::BracketWildcard, Path::FilterExpr(Box::new(e))] }, Mode::All); let (mut data, mut offs) = (Vec::new(), Vec::new()); let r = sel.select(d.bytes(), &mut data, &mut offs); let ok = r.is_ok(); core::mem::forget((sel, data, offs)); assert!(ok); });

macro_rules! probe2 {
    ($name:ident, $r:expr, $body:expr) => {
        #[kani::proof]
        #[kani::unwind($r)]
        #[kani::stub(std::ptr::drop_in_place, noop_drop)]
        #[kani::stub(std::string::String::from_utf8_lossy, from_utf8_lossy_model)]
        #[kani::stub(core::str::from_utf8, from_utf8_model)]
        fn $name() {
            $body
        }
    };
}
//@ props: PROBE3
//@ timeout: 900
//@ harness: q_delname_r2, q_objins_r2, q_decode_r2, q_select_r2, q_escape4, q_digits3, q_tostring_arr, q_serde_walk, q_prefix, q_concat_obj_r2, q_string_tail2
//@ desc: feasibility probes, round 3
//@ fns: -
probe2!(q_delname_r2, 2, { let d = B::build(&obj(&[1, 2], &[leaf(K_NUM, 2), leaf(K_STR, 1)])); let k = d.keyb(d.root, 0); let nm = Name { b: k.b, len: k.n }; let mut b = Vec::new(); let r = delete_by_name(d.bytes(), nm.as_str(), &mut b); let ok = r.is_ok() && b.len() == 4 + 8 + 2 + 1; core::mem::forget(b); assert!(ok); });
probe2!(q_objins_r2, 2, { let d = B::build(&obj(&[1], &[leaf(K_NUM, 2)])); let nw = B::build(&leaf(K_TRUE, 0)); let nm = Name::of_len(2); let mut b = Vec::new(); let r = object_insert(d.bytes(), nm.as_str(), nw.bytes(), false, &mut b); let ok = r.is_ok() && b.len() == 4 + 16 + 3 + 2; core::mem::forget(b); assert!(ok); });
probe2!(q_decode_r2, 2, { let d = B::build(&arr(&[leaf(K_NUM, 2), leaf(K_STR, 1)])); let v = crate::de::parse_jsonb(d.bytes()); let ok = matches!(&v, Ok(Value::Array(a)) if a.len() == 2); core::mem::forget(v); assert!(ok); });
probe2!(q_select_r2, 2, { let d = B::build(&arr(&[leaf(K_NUM, 2), leaf(K_STR, 1)])); let sel = Selector::new(JsonPath { paths: vec![Path::Root, Path::BracketWildcard] }, Mode::All); let (mut data, mut offs) = (Vec::new(), Vec::new()); let r = sel.select(d.bytes(), &mut data, &mut offs); let ok = r.is_ok() && offs.len() == 2; core::mem::forget((sel, data, offs)); assert!(ok); });
probe2!(q_escape4, 3, { let h: [u8; 4] = kani::any(); let t = [b'"', b'\\', b'u', h[0], h[1], h[2], h[3], b'"']; let r = crate::parser::parse_value(&t); let ok = r.is_ok(); core::mem::forget(r); kani::cover!(ok); kani::cover!(!ok); });
probe2!(q_digits3, 3, { let h: [u8; 3] = kani::any(); kani::assume(h[0] >= b'1' && h[0] <= b'9' && h[1] >= b'0' && h[1] <= b'9' && h[2] >= b'0' && h[2] <= b'9'); let r = crate::parser::parse_value(&h); let ok = r.is_ok(); core::mem::forget(r); assert!(ok); });
probe2!(q_tostring_arr, 3, { let d = B::build(&arr(&[leaf(K_NULL, 0), leaf(K_STR, 1)])); let s = to_string(d.bytes()); let n = s.len(); core::mem::forget(s); assert!(n >= 9); });
probe2!(q_serde_walk, 3, { let d = B::build(&arr(&[leaf(K_NUM, 2), leaf(K_STR, 1)])); let r = to_serde_json(d.bytes()); let ok = match &r { Ok(serde_json::Value::Array(v)) => v.len() == 2 && v[0].is_number() && matches!(&v[1], serde_json::Value::String(s) if s.len() == 1 && s.as_bytes()[0] == d.b[d.node(d.node(d.root).kids[1]).off]), _ => false }; core::mem::forget(r); assert!(ok); });
probe2!(q_prefix, 3, { let d = B::build(&leaf(K_STR, 2)); let r = crate::de::parse_jsonb(&d.b[..9]); let r2 = crate::de::from_slice(&d.b[..9]); let ok = r.is_err() && r2.is_err(); core::mem::forget((r, r2)); assert!(ok); });
probe2!(q_concat_obj_r2, 2, { let a = B::build(&obj(&[1], &[leaf(K_NUM, 2)])); let c = B::build(&obj(&[2], &[leaf(K_TRUE, 0)])); let mut b = Vec::new(); let r = concat(a.bytes(), c.bytes(), &mut b); let ok = r.is_ok() && b.len() == 4 + 16 + 3 + 2; core::mem::forget(b); assert!(ok); });
probe2!(q_string_tail2, 3, { let t: [u8; 2] = kani::any(); let b = [b'"', b'a', t[0], t[1]]; let r = crate::jsonpath::string(&b); let ok = r.is_ok(); core::mem::forget(r); kani::cover!(ok); kani::cover!(!ok); });
