//! Kani proof harnesses for b41sh/jsonb. This directory is copied into a scratch copy of
//! /repo's working tree as `src/verif/` and wired in by one appended line in `src/lib.rs`
//! (`#[cfg(kani)] mod verif;`) by /verif/bin/vcheck. Nothing here is compiled outside `cargo kani`.
#![allow(dead_code, unused_imports, clippy::all)]

pub mod common;
pub mod bdoc;
pub mod c00;
pub mod c16;
pub mod c17;
pub mod c18;
pub mod c01;
pub mod c02;
pub mod c03;
pub mod c04;
pub mod c05;
pub mod c06;
pub mod c07;
pub mod c08;
pub mod c09;
pub mod c10;
pub mod c11;
pub mod c12;
pub mod c13;
pub mod c14;
pub mod c19;
pub mod c20;
pub mod tiny;
