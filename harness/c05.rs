//! C05 — read-only accessors on JSONB bytes agree with the document they encode.
use super::bdoc::*;
use super::common::*;
use crate::functions::*;
use crate::keypath::KeyPath;
use std::borrow::Cow;

macro_rules! harness {
    ($name:ident, $body:expr) => {
        #[kani::proof]
        #[kani::unwind(5)]
        #[kani::stub(crate::parser::parse_value, no_parse_value)]
        #[kani::stub(std::ptr::drop_in_place, noop_drop)]
        #[kani::stub(core::str::from_utf8, from_utf8_model)]
        fn $name() {
            $body
        }
    };
}

fn expect_sub(got: Option<Vec<u8>>, d: &B, id: Option<usize>) {
    match id {
        None => assert!(got.is_none(), "absent where the tree has no such sub-value"),
        Some(id) => {
            assert!(got.is_some(), "present where the tree has the sub-value");
            let (e, n) = d.sub_doc(id);
            let g = got.unwrap();
            assert!(same(&g, &e, n), "the sub-value handed back is the complete canonical encoding of the tree's sub-value");
            core::mem::forget(g);
        }
    }
}

// ---- get_by_index / array_length / array_values
/// `far`: false = every index 0..=len+1 by case split (constant on each path, so the copy the
/// function makes has a concrete size); true = every index >= len+2 at once (fully symbolic)
fn by_index(d: &B, far: bool) {
    let root = d.node(d.root);
    let idx: usize = kani::any();
    let n = if root.kind == K_ARR { root.cnt } else { 0 };
    if far {
        kani::assume(idx >= n + 2);
        assert!(get_by_index(d.bytes(), idx).is_none(), "index beyond the end: None");
    } else {
        kani::assume(idx <= n + 1);
        let mut k = 0;
        while k <= n + 1 {
            if idx == k {
                let want = if root.kind == K_ARR && k < root.cnt { Some(root.kids[k]) } else { None };
                expect_sub(get_by_index(d.bytes(), k), d, want);
            }
            k += 1;
        }
    }
    let al = array_length(d.bytes());
    assert!(al == if root.kind == K_ARR { Some(root.cnt) } else { None }, "array_length");
}
fn values(d: &B) {
    let root = d.node(d.root);
    let r = array_values(d.bytes());
    if root.kind != K_ARR {
        assert!(r.is_none(), "array_values of a non-array");
    } else {
        let v = r.unwrap();
        assert!(v.len() == root.cnt, "one entry per element");
        let mut i = 0;
        while i < root.cnt {
            let (e, n) = d.sub_doc(root.kids[i]);
            assert!(same(&v[i], &e, n), "array_values element is the canonical encoding of the element");
            i += 1;
        }
        core::mem::forget(v);
    }
}

// ---- get_by_name (exact first, else first key in key order matching ASCII-case-insensitively)
fn by_name(d: &B, nlen: usize) {
    let root = d.node(d.root);
    let name = Name::of_len(nlen);
    let ic: bool = kani::any();
    let mut want = None;
    if root.kind == K_OBJ {
        let mut i = 0;
        while i < root.cnt {
            if want.is_none() && name.eq_key(d, root.koff[i], root.klen[i]) {
                want = Some(root.kids[i]);
            }
            i += 1;
        }
        if want.is_none() && ic {
            let mut i = 0;
            while i < root.cnt {
                if want.is_none() && name.eq_key_ignore_case(d, root.koff[i], root.klen[i]) {
                    want = Some(root.kids[i]);
                }
                i += 1;
            }
        }
    }
    expect_sub(get_by_name(d.bytes(), name.as_str(), ic), d, want);
    kani::cover!(want.is_none() || root.kind == K_OBJ, "lookup evaluated");
}

// ---- object_keys / object_each
fn keys_each(d: &B) {
    let root = d.node(d.root);
    let k = object_keys(d.bytes());
    let e = object_each(d.bytes());
    if root.kind != K_OBJ {
        assert!(k.is_none() && e.is_none(), "object_keys/object_each of a non-object");
    } else {
        // expected keys array: header, string entries, key bytes
        let mut x = [0u8; CAP];
        x[0] = 0x80;
        x[3] = root.cnt as u8;
        let mut at = 4;
        let mut i = 0;
        while i < root.cnt {
            x[at] = 0x10;
            x[at + 3] = root.klen[i] as u8;
            at += 4;
            i += 1;
        }
        i = 0;
        while i < root.cnt {
            let mut j = 0;
            while j < root.klen[i] {
                x[at] = d.b[root.koff[i] + j];
                at += 1;
                j += 1;
            }
            i += 1;
        }
        let kv = k.unwrap();
        assert!(same(&kv, &x, at), "object_keys is the canonical array of the keys in key order");
        let ev = e.unwrap();
        assert!(ev.len() == root.cnt, "object_each: one pair per member");
        i = 0;
        while i < root.cnt {
            let mut kb = [0u8; CAP];
            let mut j = 0;
            while j < root.klen[i] {
                kb[j] = d.b[root.koff[i] + j];
                j += 1;
            }
            assert!(same(&ev[i].0, &kb, root.klen[i]), "object_each key bytes");
            let (s, n) = d.sub_doc(root.kids[i]);
            assert!(same(&ev[i].1, &s, n), "object_each value is the canonical encoding of the member");
            i += 1;
        }
        core::mem::forget(kv);
        core::mem::forget(ev);
    }
}

// ---- type_of, is_* / as_* views
fn type_and_views(d: &B) {
    let root = d.node(d.root);
    let t = type_of(d.bytes());
    let want = match root.kind {
        K_NULL => "null",
        K_TRUE | K_FALSE => "boolean",
        K_NUM => "number",
        K_STR => "string",
        K_ARR => "array",
        _ => "object",
    };
    assert!(t.is_ok(), "type_of of a valid document is Ok");
    let t = t.unwrap();
    assert!(t.len() == want.len() && t.as_bytes()[0] == want.as_bytes()[0] && t.as_bytes()[1] == want.as_bytes()[1], "type_of names the kind");
    let v = d.bytes();
    assert!(is_null(v) == (root.kind == K_NULL) && as_null(v).is_some() == (root.kind == K_NULL), "is_null/as_null");
    assert!(is_boolean(v) == (root.kind == K_TRUE || root.kind == K_FALSE), "is_boolean");
    assert!(as_bool(v) == if root.kind == K_TRUE { Some(true) } else if root.kind == K_FALSE { Some(false) } else { None }, "as_bool");
    assert!(is_array(v) == (root.kind == K_ARR) && is_object(v) == (root.kind == K_OBJ), "is_array/is_object");
    assert!(is_number(v) == (root.kind == K_NUM) && is_string(v) == (root.kind == K_STR), "is_number/is_string");
    if root.kind == K_NUM {
        let n = d.num(&root);
        let a = as_number(v).unwrap();
        assert!(a == n, "as_number is the stored number");
        assert!(as_i64(v) == n.as_i64() && as_u64(v) == n.as_u64(), "as_i64/as_u64 are the number's exact views");
        let (f, g) = (as_f64(v).unwrap(), n.as_f64().unwrap());
        assert!(f.to_bits() == g.to_bits() || (f.is_nan() && g.is_nan()), "as_f64 is the number's f64 view");
        assert!(is_i64(v) == n.as_i64().is_some() && is_u64(v) == n.as_u64().is_some() && is_f64(v), "is_i64/is_u64/is_f64");
        assert!(to_i64(v).ok() == n.as_i64() && to_u64(v).ok() == n.as_u64(), "to_i64/to_u64 of a number are its exact views");
        assert!(to_f64(v).is_ok() && to_bool(v).is_err(), "to_f64 Ok, to_bool InvalidCast on a number");
    } else {
        assert!(as_number(v).is_none() && as_i64(v).is_none() && as_u64(v).is_none() && as_f64(v).is_none(), "number views absent on non-numbers");
    }
    match as_str(v) {
        Some(s) => {
            assert!(root.kind == K_STR, "as_str only on strings");
            let mut x = [0u8; CAP];
            let mut i = 0;
            while i < root.len {
                x[i] = d.b[root.off + i];
                i += 1;
            }
            assert!(same(s.as_bytes(), &x, root.len), "as_str is the stored string");
        }
        None => assert!(root.kind != K_STR, "as_str present on strings"),
    }
    if root.kind == K_TRUE || root.kind == K_FALSE {
        let b = root.kind == K_TRUE;
        assert!(to_bool(v) == Ok(b) && to_i64(v) == Ok(b as i64) && to_u64(v) == Ok(b as u64), "casts of booleans");
        assert!(to_f64(v) == Ok(if b { 1.0 } else { 0.0 }), "to_f64 of a boolean");
    }
    if root.kind == K_NULL || root.kind == K_ARR || root.kind == K_OBJ {
        assert!(to_bool(v).is_err() && to_i64(v).is_err() && to_u64(v).is_err() && to_f64(v).is_err(), "casts of null/containers are InvalidCast");
    }
}

// ---- exists_all_keys / exists_any_keys (top-level object keys, or string elements of an array)
fn exists(d: &B, l0: usize, l1: usize) {
    let root = d.node(d.root);
    let (n0, n1) = (Name::of_len(l0), Name::of_len(l1));
    let has = |n: &Name| -> bool {
        let mut f = false;
        let mut i = 0;
        while i < root.cnt {
            if root.kind == K_OBJ {
                if n.eq_key(d, root.koff[i], root.klen[i]) {
                    f = true;
                }
            } else if root.kind == K_ARR {
                let c = d.node(root.kids[i]);
                if c.kind == K_STR && n.eq_key(d, c.off, c.len) {
                    f = true;
                }
            }
            i += 1;
        }
        f
    };
    let (h0, h1) = (has(&n0), has(&n1));
    let ks: [&[u8]; 2] = [&n0.b[..l0], &n1.b[..l1]];
    assert!(exists_all_keys(d.bytes(), ks.iter().copied()) == (h0 && h1), "exists_all_keys");
    assert!(exists_any_keys(d.bytes(), ks.iter().copied()) == (h0 || h1), "exists_any_keys");
    kani::cover!(!h1 || root.cnt > 0, "evaluated");
}

// ---- traverse_check_string: some string value or key, at any depth, satisfies the predicate
fn has_string(d: &B, id: usize, n: &Name) -> bool {
    let x = d.node(id);
    if x.kind == K_STR {
        return n.eq_key(d, x.off, x.len);
    }
    let mut f = false;
    if x.kind == K_ARR || x.kind == K_OBJ {
        let mut i = 0;
        while i < x.cnt {
            if x.kind == K_OBJ && n.eq_key(d, x.koff[i], x.klen[i]) {
                f = true;
            }
            if has_string(d, x.kids[i], n) {
                f = true;
            }
            i += 1;
        }
    }
    f
}
fn traverse(d: &B, l: usize) {
    let n = Name::of_len(l);
    let want = has_string(d, d.root, &n);
    let got = traverse_check_string(d.bytes(), |s: &[u8]| {
        s.len() == n.len && (n.len < 1 || s[0] == n.b[0]) && (n.len < 2 || s[1] == n.b[1])
    });
    assert!(got == want, "traverse_check_string finds exactly the strings and keys of the document");
    kani::cover!(want, "found");
    kani::cover!(!want, "not found");
}

// ---- get_by_keypath: up to two elements, each Index(any i32) or Name
fn keypath_idx(d: &B, id: usize, i: i32) -> Option<usize> {
    let x = d.node(id);
    if x.kind != K_ARR {
        return None;
    }
    let len = x.cnt as i64;
    let j = if i >= 0 { i as i64 } else { len + i as i64 };
    if j < 0 || j >= len {
        return None;
    }
    let mut w = 0;
    let mut k = 0;
    while k < x.cnt {
        if k as i64 == j {
            w = x.kids[k];
        }
        k += 1;
    }
    Some(w)
}
fn keypath_name(d: &B, id: usize, n: &Name) -> Option<usize> {
    let x = d.node(id);
    if x.kind != K_OBJ {
        return None;
    }
    let mut w = None;
    let mut k = 0;
    while k < x.cnt {
        if w.is_none() && n.eq_key(d, x.koff[k], x.klen[k]) {
            w = Some(x.kids[k]);
        }
        k += 1;
    }
    w
}
/// case split over lo..=hi so that the value is a constant on each path
fn split_i32(lo: i32, hi: i32, f: impl Fn(i32)) {
    let i: i32 = kani::any();
    kani::assume(i >= lo && i <= hi);
    let mut v = lo;
    while v <= hi {
        if i == v {
            f(v); // the concrete loop value, so that the argument is a constant on this path
        }
        v += 1;
    }
}
/// an index far outside every array here: |i| > 5, fully symbolic
fn far_i32() -> i32 {
    let i: i32 = kani::any();
    kani::assume(i > 5 || i < -5);
    i
}
fn keypath_run(d: &B, form: usize, i: i32, j: i32, n: &Name, m: &Name) {
    let p_i = KeyPath::Index(i);
    let p_j = KeyPath::Index(j);
    let p_n = KeyPath::Name(Cow::Borrowed(n.as_str()));
    let p_m = KeyPath::QuotedName(Cow::Borrowed(m.as_str()));
    let (path, want): ([&KeyPath; 2], Option<usize>) = match form {
        0 => ([&p_i, &p_j], Some(d.root)),
        1 => ([&p_i, &p_j], keypath_idx(d, d.root, i)),
        2 => ([&p_n, &p_j], keypath_name(d, d.root, n)),
        3 => ([&p_i, &p_j], keypath_idx(d, d.root, i).and_then(|c| keypath_idx(d, c, j))),
        4 => ([&p_i, &p_n], keypath_idx(d, d.root, i).and_then(|c| keypath_name(d, c, n))),
        5 => ([&p_n, &p_i], keypath_name(d, d.root, n).and_then(|c| keypath_idx(d, c, i))),
        _ => ([&p_n, &p_m], keypath_name(d, d.root, n).and_then(|c| keypath_name(d, c, m))),
    };
    let cnt = if form == 0 { 0 } else if form <= 2 { 1 } else { 2 };
    let got = get_by_keypath(d.bytes(), path[..cnt].iter().copied());
    if form == 0 {
        assert!(got.is_some());
        let g = got.unwrap();
        assert!(same(&g, &d.b, d.n), "empty key path returns the document itself");
        core::mem::forget(g);
    } else {
        expect_sub(got, d, want);
    }
    kani::cover!(want.is_some() || want.is_none(), "key path evaluated");
}
/// form: 0 = {}, 1 = {i}, 2 = {name}, 3 = {i,j}, 4 = {i,name}, 5 = {name,i}, 6 = {name,name}.
/// Index elements range over -4..=4 by case split (every position from below -len to above len);
/// `far` replaces the first index by a fully symbolic one with |i| > 5.
fn keypath(d: &B, form: usize, nl: usize, far: bool) {
    let (n, m) = (Name::of_len(nl), Name::of_len(1));
    let uses_i = form == 1 || form == 3 || form == 4 || form == 5;
    let uses_j = form == 3;
    if far {
        let (i, j) = (far_i32(), far_i32());
        keypath_run(d, form, i, j, &n, &m);
    } else if uses_j {
        split_i32(-3, 2, |i| split_i32(-2, 1, |j| keypath_run(d, form, i, j, &n, &m)));
    } else if uses_i {
        split_i32(-4, 3, |i| keypath_run(d, form, i, 0, &n, &m));
    } else {
        keypath_run(d, form, 0, 0, &n, &m);
    }
}

// ================= harness instances
const D3: [(u8, usize); 3] = [(K_NUM, 2), (K_STR, 1), (K_NULL, 0)];
//@ props: UNREACHED-C05
//@ tier: thorough
//@ timeout: 3600
//@ harness: c05_index_s0, c05_index_s1, c05_index_s2, c05_index_s3567, c05_index_far
//@ desc: get_by_index and array_length on [x,y,s], [[x],y], [x,{k:y},n], {k:x,kk:y}, scalar, [], {} (x,y case-split over (kind,width) classes): every index 0..=len+1 by case split, and (c05_index_far) every index >= len+2 at once; the result is byte-identical to the canonical encoding of the tree's element, None otherwise
//@ fns: get_by_index, get_jentry_by_index, extract_by_jentry, array_length
//@ bounds: <= 3 elements, depth 2, strings/keys <= 2 bytes; index: all of usize
//@ stubs: parse_value -> panic | drop_in_place -> no-op | core::str::from_utf8 -> specification model
harness!(c05_index_s0, shapes_split(0, &D3, 3, |d| by_index(d, false)));
harness!(c05_index_s1, shapes_split(1, &D3, 2, |d| by_index(d, false)));
harness!(c05_index_s2, shapes_split(2, &D3, 2, |d| by_index(d, false)));
harness!(c05_index_s3567, split1(4, |k| shapes_split(if k == 0 { 3 } else { 4 + k }, &D3, 2, |d| by_index(d, false))));
harness!(c05_index_far, split1(3, |k| with_shape([0, 2, 6][k], D3[0], D3[1], |d| by_index(d, true))));

//@ props: UNREACHED-C05
//@ tier: thorough
//@ timeout: 3600
//@ harness: c05_values_s0, c05_values_s2, c05_values_s3567
//@ desc: array_values on the same shapes: one canonical sub-document per element, in order; None for non-arrays
//@ fns: array_values, extract_by_jentry
//@ bounds: <= 3 elements, depth 2
//@ stubs: parse_value -> panic | drop_in_place -> no-op | core::str::from_utf8 -> specification model
harness!(c05_values_s0, shapes_split(0, &D3, 3, |d| values(d)));
harness!(c05_values_s2, shapes_split(2, &D3, 2, |d| values(d)));
harness!(c05_values_s3567, split1(4, |k| shapes_split(if k == 0 { 3 } else { 4 + k }, &D3, 2, |d| values(d))));

//@ props: UNREACHED-C05
//@ tier: thorough
//@ timeout: 3600
//@ harness: c05_name_s3_l0, c05_name_s3_l1, c05_name_s3_l2, c05_name_s4_l0, c05_name_s4_l1, c05_name_s8_l1, c05_name_s8_l2, c05_name_s0567
//@ desc: get_by_name with symbolic name bytes of length 0, 1 or 2 and symbolic ignore_case on {k:x,kk:y} (keys of lengths 1 and 2, values of different widths), {"":x,k:[y]}, {a:{j:x},b:y,cc:null} (two keys of equal length: case variants of one another are possible), and on non-objects: exact match first, otherwise the first key in key order matching ASCII-case-insensitively; result byte-identical to the member's canonical encoding
//@ fns: get_by_name, get_jentry_by_name, extract_by_jentry
//@ bounds: <= 3 members, keys and names <= 2 bytes
//@ stubs: parse_value -> panic | drop_in_place -> no-op | core::str::from_utf8 -> specification model
harness!(c05_name_s3_l0, shapes_split(3, &D3, 2, |d| by_name(d, 0)));
harness!(c05_name_s3_l1, shapes_split(3, &D3, 2, |d| by_name(d, 1)));
harness!(c05_name_s3_l2, shapes_split(3, &D3, 2, |d| by_name(d, 2)));
harness!(c05_name_s4_l0, shapes_split(4, &D3, 2, |d| by_name(d, 0)));
harness!(c05_name_s4_l1, shapes_split(4, &D3, 2, |d| by_name(d, 1)));
harness!(c05_name_s8_l1, with_shape(8, D3[0], D3[0], |d| by_name(d, 1)));
harness!(c05_name_s8_l2, with_shape(8, D3[0], D3[1], |d| by_name(d, 2)));
harness!(c05_name_s0567, split1(4, |k| with_shape(if k == 0 { 0 } else { 4 + k }, D3[0], D3[1], |d| by_name(d, 1))));

//@ props: UNREACHED-C05
//@ tier: thorough
//@ timeout: 3600
//@ harness: c05_keys_s3, c05_keys_s4, c05_keys_s8, c05_keys_s0567
//@ desc: object_keys and object_each: canonical array of the keys in key order; one (key bytes, canonical value document) pair per member; None for non-objects
//@ fns: object_keys, object_each, extract_by_jentry
//@ bounds: <= 3 members
//@ stubs: parse_value -> panic | drop_in_place -> no-op | core::str::from_utf8 -> specification model
harness!(c05_keys_s3, shapes_split(3, &D3, 3, |d| keys_each(d)));
harness!(c05_keys_s4, shapes_split(4, &D3, 2, |d| keys_each(d)));
harness!(c05_keys_s8, shapes_split(8, &D3, 2, |d| keys_each(d)));
harness!(c05_keys_s0567, split1(4, |k| with_shape(if k == 0 { 0 } else { 4 + k }, D3[0], D3[1], |d| keys_each(d))));

//@ props: UNREACHED-C05
//@ tier: thorough
//@ timeout: 3600
//@ harness: c05_views_scalar, c05_views_containers
//@ desc: type_of, is_null/as_null, is_boolean/as_bool, is_number/as_number, is/as i64,u64,f64, as_str/is_string, is_array/is_object and the to_bool/to_i64/to_u64/to_f64 casts on scalar documents of all 11 classes and on containers: each agrees with the stored scalar (numbers through Number's views, proved exact in C18)
//@ fns: type_of, as_null, as_bool, as_number, as_i64, as_u64, as_f64, as_str, is_array, is_object, to_bool, to_i64, to_u64, to_f64
//@ bounds: strings <= 2 bytes; string-to-number casts of to_i64/to_u64/to_f64/to_bool are not asserted (std::str::parse and to_lowercase are not encoded)
//@ stubs: parse_value -> panic | drop_in_place -> no-op | core::str::from_utf8 -> specification model
//@ outside: to_* casts from strings (std parse / to_lowercase) | to_str
harness!(c05_views_scalar, split1(NCLS, |i| with_shape(5, CLS[i], CLS[0], |d| {
    let k = d.node(d.root).kind;
    if k != K_STR { type_and_views(d) } else {
        // strings: everything except the to_* string casts
        let v = d.bytes();
        assert!(type_of(v) == Ok("string") && is_string(v) && !is_number(v) && !is_null(v) && !is_boolean(v) && !is_array(v) && !is_object(v));
        assert!(as_number(v).is_none() && as_bool(v).is_none() && as_null(v).is_none());
        let s = as_str(v).unwrap();
        let r = d.node(d.root);
        assert!(s.len() == r.len && (r.len < 1 || s.as_bytes()[0] == d.b[r.off]) && (r.len < 2 || s.as_bytes()[1] == d.b[r.off + 1]), "as_str is the stored string");
    }
})));
harness!(c05_views_containers, split1(4, |k| with_shape(if k < 2 { 6 + k } else { k - 2 }, CLS[4], CLS[9], |d| type_and_views(d))));

//@ props: UNREACHED-C05
//@ tier: thorough
//@ timeout: 3600
//@ harness: c05_exists_obj, c05_exists_arr, c05_exists_other
//@ desc: exists_all_keys / exists_any_keys with two symbolic keys (lengths 1 and 2 / 1 and 1): top-level object keys, string elements of an array (non-string elements never match), false for scalars and for absent keys
//@ fns: exists_all_keys, exists_any_keys, exists_jsonb_key, iteate_object_keys, iterate_array
//@ bounds: <= 3 members/elements; keys <= 2 bytes
//@ stubs: parse_value -> panic | drop_in_place -> no-op | core::str::from_utf8 -> specification model
harness!(c05_exists_obj, shapes_split(3, &D3, 2, |d| exists(d, 1, 2)));
harness!(c05_exists_arr, shapes_split(0, &CLS_T, 3, |d| exists(d, 1, 1)));
harness!(c05_exists_other, split1(3, |k| with_shape(5 + k, D3[1], D3[0], |d| exists(d, 1, 0))));

//@ props: UNREACHED-C05
//@ tier: thorough
//@ timeout: 3600
//@ harness: c05_traverse_s0, c05_traverse_s2, c05_traverse_s4, c05_traverse_s8, c05_traverse_s567
//@ desc: traverse_check_string with the predicate "equals a symbolic 1-byte needle": true exactly when some string value or object key at any depth equals the needle
//@ fns: traverse_check_string
//@ bounds: depth 2, <= 3 children
//@ stubs: parse_value -> panic | drop_in_place -> no-op | core::str::from_utf8 -> specification model
harness!(c05_traverse_s0, shapes_split(0, &CLS_T, 3, |d| traverse(d, 1)));
harness!(c05_traverse_s2, shapes_split(2, &CLS_T, 3, |d| traverse(d, 1)));
harness!(c05_traverse_s4, shapes_split(4, &CLS_T, 3, |d| traverse(d, 1)));
harness!(c05_traverse_s8, shapes_split(8, &CLS_T, 3, |d| traverse(d, 1)));
harness!(c05_traverse_s567, split1(3, |k| shapes_split(5 + k, &CLS_T, 3, |d| traverse(d, 1))));

//@ props: UNREACHED-C05
//@ tier: thorough
//@ timeout: 3600
//@ harness: c05_keypath_f0, c05_keypath_f1_s0, c05_keypath_f1_s1, c05_keypath_f2_s3, c05_keypath_f3_s1, c05_keypath_f4_s2, c05_keypath_f5_s4, c05_keypath_f6_s8, c05_keypath_past, c05_keypath_far
//@ desc: get_by_keypath with key paths of 0, 1 and 2 elements: {} / {i} / {name} / {i,j} / {i,name} / {name,i} / {name,name}; index elements take every value -4..=4 (from below -len to above len, negative counting from the end) by case split, and (c05_keypath_far) every i32 with |i| > 5 at once; names are symbolic; on shapes where the path can resolve and paths into and past scalars; result byte-identical to the canonical encoding of the tree's sub-value
//@ fns: get_by_keypath, get_jentry_by_name, get_jentry_by_index, extract_by_jentry
//@ bounds: paths <= 2 elements; documents depth 2; indices: all of i32
//@ stubs: parse_value -> panic | drop_in_place -> no-op | core::str::from_utf8 -> specification model
harness!(c05_keypath_f0, split1(3, |k| with_shape(k * 3, D3[0], D3[1], |d| keypath(d, 0, 1, false))));
harness!(c05_keypath_f1_s0, shapes_split(0, &D3, 2, |d| keypath(d, 1, 1, false)));
harness!(c05_keypath_f1_s1, with_shape(1, D3[1], D3[0], |d| keypath(d, 1, 1, false)));
harness!(c05_keypath_f2_s3, shapes_split(3, &D3, 2, |d| keypath(d, 2, 2, false)));
harness!(c05_keypath_f3_s1, with_shape(1, D3[0], D3[1], |d| keypath(d, 3, 1, false)));
harness!(c05_keypath_f4_s2, with_shape(2, D3[0], D3[1], |d| keypath(d, 4, 1, false)));
harness!(c05_keypath_f5_s4, with_shape(4, D3[0], D3[1], |d| keypath(d, 5, 1, false)));
harness!(c05_keypath_f6_s8, with_shape(8, D3[0], D3[1], |d| keypath(d, 6, 1, false)));
harness!(c05_keypath_past, split2(3, 3, |k, f| with_shape([0, 3, 5][k], D3[0], D3[1], |d| keypath(d, 4 + f, 1, false))));
harness!(c05_keypath_far, split2(3, 2, |k, f| with_shape([0, 1, 3][k], D3[0], D3[1], |d| keypath(d, [1, 3][f], 1, true))));


// ================= quick tier: one fixed class assignment per shape (sibling widths 2 / 1 / 0 / 9)
const QX: (u8, usize) = (K_NUM, 2);
const QY: (u8, usize) = (K_STR, 1);
const QZ: (u8, usize) = (K_NULL, 0);
const QN9: (u8, usize) = (K_NUM, 9);
//@ props: C05
//@ timeout: 900
//@ harness: c05q_index_s0, c05q_index_s2, c05q_index_rest, c05q_values
//@ desc: quick tier: get_by_index / array_length (every index 0..=len+1 by case split, and every index >= len+2 at once) and array_values on [n2,s1,s1'], [null,{k:n9},n2], [[s1],n2], {k:n2,kk:s1}, scalar, [], {} with symbolic payloads: byte-identical to the canonical encoding of the tree's element
//@ fns: get_by_index, get_jentry_by_index, extract_by_jentry, array_length, array_values
//@ bounds: <= 3 elements, depth 2; index: all of usize
//@ stubs: parse_value -> panic | drop_in_place -> no-op | core::str::from_utf8 -> specification model
harness!(c05q_index_s0, with_shape(0, QX, QY, |d| by_index(d, false)));
harness!(c05q_index_s2, with_shape(2, QZ, QN9, |d| by_index(d, false)));
harness!(c05q_index_rest, split1(6, |k| if k < 2 { with_shape([0, 2][k], QX, QY, |d| by_index(d, true)) } else { with_shape([1, 3, 5, 6][k - 2], QY, QX, |d| by_index(d, false)) }));
harness!(c05q_values, split1(4, |k| with_shape([0, 2, 3, 6][k], QN9, QZ, |d| values(d))));

//@ props: C05
//@ timeout: 900
//@ harness: c05q_name_s3_l1, c05q_name_s3_l2, c05q_name_s4, c05q_name_s8, c05q_name_s9, c05q_name_other, c05q_keys
//@ desc: quick tier: get_by_name (symbolic name of length 0/1/2, symbolic ignore_case) on {k:n2,kk:s1}, {"":n9,k:[null]}, {a:{j:n2},b:s1,cc:null} and non-objects; object_keys/object_each on the same objects
//@ fns: get_by_name, get_jentry_by_name, extract_by_jentry, object_keys, object_each
//@ bounds: <= 3 members, keys and names <= 2 bytes
//@ stubs: parse_value -> panic | drop_in_place -> no-op | core::str::from_utf8 -> specification model
harness!(c05q_name_s3_l1, with_shape(3, QX, QY, |d| by_name(d, 1)));
harness!(c05q_name_s3_l2, with_shape(3, QX, QY, |d| by_name(d, 2)));
harness!(c05q_name_s4, split1(2, |l| with_shape(4, QN9, QZ, |d| by_name(d, l))));
harness!(c05q_name_s8, split1(2, |l| with_shape(8, QX, QY, |d| by_name(d, 1 + l))));
harness!(c05q_name_s9, split1(2, |l| with_shape(9, QX, QY, |d| by_name(d, 1 + l))));
harness!(c05q_name_other, split1(4, |k| with_shape(if k == 0 { 0 } else { 4 + k }, QX, QY, |d| by_name(d, 1))));
harness!(c05q_keys, split1(4, |k| with_shape([3, 4, 8, 0][k], QX, QZ, |d| keys_each(d))));

//@ props: C05
//@ timeout: 900
//@ harness: c05q_views_num, c05q_views_other
//@ desc: quick tier: type_of, is_*/as_* and the to_* casts on scalar documents (number widths 1, 2 and 9; true, false, null, strings) and on containers
//@ fns: type_of, as_null, as_bool, as_number, as_i64, as_u64, as_f64, as_str, is_array, is_object, to_bool, to_i64, to_u64, to_f64
//@ bounds: strings <= 1 byte
//@ stubs: parse_value -> panic | drop_in_place -> no-op | core::str::from_utf8 -> specification model
//@ outside: to_* casts from strings (std parse / to_lowercase) | to_str
harness!(c05q_views_num, split1(3, |i| with_shape(5, [(K_NUM, 1), (K_NUM, 2), (K_NUM, 9)][i], QX, |d| type_and_views(d))));
harness!(c05q_views_other, split1(5, |i| if i < 3 { with_shape(5, [(K_NULL, 0), (K_TRUE, 0), (K_FALSE, 0)][i], QX, |d| type_and_views(d)) } else { with_shape(3 * (i - 3), QX, QY, |d| type_and_views(d)) }));

//@ props: C05
//@ timeout: 900
//@ harness: c05q_exists_obj, c05q_exists_arr, c05q_exists_other, c05q_exists_nonstring, c05q_traverse
//@ desc: quick tier: exists_all_keys / exists_any_keys with two symbolic keys on {k:n2,kk:s1}, [s1,n2,s1'], a scalar and []; on [n2,null,s1] with keys of 2 and 0 bytes (the widths of the number and null payloads: non-string elements never match); traverse_check_string with a symbolic 1-byte needle on [n2,s1,s1'], [null,{k:s1},n2], {"":s1,k:[n2]}, {a:{j:s1},b:n2,cc:null}
//@ fns: exists_all_keys, exists_any_keys, exists_jsonb_key, traverse_check_string
//@ bounds: <= 3 members/elements, depth 2
//@ stubs: parse_value -> panic | drop_in_place -> no-op | core::str::from_utf8 -> specification model
harness!(c05q_exists_obj, with_shape(3, QX, QY, |d| exists(d, 1, 2)));
harness!(c05q_exists_arr, with_shape(0, QY, QX, |d| exists(d, 1, 1)));
harness!(c05q_exists_other, split1(2, |k| with_shape(5 + k, QX, QY, |d| exists(d, 1, 1))));
harness!(c05q_exists_nonstring, with_shape(0, (K_NUM, 2), (K_NULL, 0), |d| exists(d, 2, 0)));
harness!(c05q_traverse, split1(4, |k| with_shape([0, 2, 4, 8][k], if k == 0 { QX } else { QY }, if k == 1 { QY } else { QX }, |d| traverse(d, 1))));

//@ props: C05
//@ timeout: 900
//@ harness: c05q_keypath_0, c05q_keypath_i, c05q_keypath_n, c05q_keypath_ii, c05q_keypath_in, c05q_keypath_far
//@ desc: quick tier: get_by_keypath: {} / {i} on [n2,s1,s1'] and [[s1],n2]; {name} on {k:n2,kk:s1}; {i,j} on [[n2],s1] with i in -3..=3, j in -2..=2; {i,name} on [null,{k:n9},n2]; indices -4..=3 by case split plus every |i| > 5 at once on []
//@ fns: get_by_keypath, get_jentry_by_name, get_jentry_by_index, extract_by_jentry
//@ bounds: paths <= 2 elements; depth 2; indices: all of i32
//@ stubs: parse_value -> panic | drop_in_place -> no-op | core::str::from_utf8 -> specification model
harness!(c05q_keypath_0, split1(2, |k| with_shape([0, 3][k], QX, QY, |d| keypath(d, 0, 1, false))));
harness!(c05q_keypath_i, with_shape(0, QX, QY, |d| keypath(d, 1, 1, false)));
harness!(c05q_keypath_n, with_shape(3, QX, QY, |d| keypath(d, 2, 2, false)));
harness!(c05q_keypath_ii, with_shape(1, QX, QY, |d| keypath(d, 3, 1, false)));
harness!(c05q_keypath_in, with_shape(2, QZ, QN9, |d| keypath(d, 4, 1, false)));
harness!(c05q_keypath_far, with_shape(6, QX, QY, |d| keypath(d, 1, 1, true)));

//@ props: C05
//@ timeout: 300
//@ expect: twin
//@ desc: vacuity twin: get_by_index claimed to always return None — must be refuted
//@ fns: get_by_index
#[kani::proof]
#[kani::unwind(5)]
#[kani::stub(crate::parser::parse_value, no_parse_value)]
#[kani::stub(std::ptr::drop_in_place, noop_drop)]
fn c05_twin_must_fail() {
    let d = B::build(&arr(&[leaf(K_NUM, 2), leaf(K_STR, 1)]));
    let idx: usize = kani::any();
    assert!(get_by_index(d.bytes(), idx).is_none(), "TWIN: deliberately false");
}
