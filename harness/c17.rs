//! C17 — functions that write into a caller's buffer only append to it.
use super::bdoc::*;
use super::common::*;
use crate::functions::*;
use crate::jsonpath::*;
use crate::keypath::KeyPath;
use std::borrow::Cow;
use std::collections::BTreeSet;

macro_rules! harness {
    ($name:ident, $body:expr) => {
        #[kani::proof]
        #[kani::unwind(5)]
        #[kani::stub(crate::parser::parse_value, no_parse_value)]
        #[kani::stub(crate::de::from_slice, no_from_slice)]
        #[kani::stub(std::ptr::drop_in_place, noop_drop)]
        fn $name() {
            $body
        }
    };
}

/// run `f` on an empty buffer and on a buffer holding a symbolic 2-byte prefix: the prefix must be
/// untouched and what follows must be exactly the empty-buffer output; on an error nothing is appended
fn append_only<E>(f: impl Fn(&mut Vec<u8>) -> Result<(), E>) {
    let mut fresh = Vec::new();
    let r1 = f(&mut fresh);
    let p: [u8; 2] = kani::any();
    let mut buf = Vec::new();
    buf.push(p[0]);
    buf.push(p[1]);
    let r2 = f(&mut buf);
    assert!(r1.is_ok() == r2.is_ok(), "same outcome with and without prior content");
    assert!(buf.len() >= 2 && buf[0] == p[0] && buf[1] == p[1], "prior buffer content is untouched");
    if r2.is_err() {
        assert!(buf.len() == 2 && fresh.is_empty(), "nothing is appended on an error");
    } else {
        assert!(buf.len() == 2 + fresh.len(), "exactly the empty-buffer output is appended");
        let mut i = 0;
        while i < XCAP {
            if i < fresh.len() {
                assert!(buf[2 + i] == fresh[i], "exactly the empty-buffer output is appended");
            }
            i += 1;
        }
    }
    kani::cover!(r2.is_ok() && !fresh.is_empty(), "something appended");
    core::mem::forget(fresh);
    core::mem::forget(buf);
}

fn docs(k: usize, f: impl Fn(&B)) {
    let n = leaf(K_NUM, 2);
    let s = leaf(K_STR, 1);
    match k {
        0 => f(&B::build(&arr(&[n, s]))),
        1 => f(&B::build(&obj(&[1, 2], &[n, leaf(K_NULL, 0)]))),
        2 => f(&B::build(&n)),
        _ => f(&B::build(&arr(&[obj(&[1], &[leaf(K_NULL, 0)]), n]))),
    }
}

//@ props: C17
//@ timeout: 1800
//@ harness: c17_delete_by_index, c17_delete_by_name, c17_delete_by_keypath, c17_array_insert, c17_object_insert, c17_object_delete_pick, c17_concat, c17_strip_nulls, c17_build, c17_sets, c17_comparable
//@ desc: each buffer-writing function is run on an empty buffer and on a buffer that already holds two arbitrary bytes, on [n,s], {k:n,kk:null}, scalar n, [{k:null},n] with symbolic arguments (indices -5..=5 by case split incl. out-of-range no-op copies, symbolic names, key sets, update flag): the prior bytes are untouched, what is appended is byte-identical to the empty-buffer output, and on a documented error nothing is appended
//@ fns: delete_by_index, delete_by_name, delete_by_keypath, array_insert, object_insert, object_delete, object_pick, concat, strip_nulls, build_array, build_object, array_distinct, array_intersection, array_except, convert_to_comparable, ArrayBuilder::build_into, ObjectBuilder::build_into, reserve_jentries, replace_jentry
//@ bounds: documents <= 3 children; prefix 2 bytes
//@ stubs: parse_value, from_slice -> panic | drop_in_place -> no-op
harness!(c17_delete_by_index, split1(4, |k| docs(k, |d| super::c06::index_arms(false, |i| append_only(|b| delete_by_index(d.bytes(), i, b))))));
harness!(c17_delete_by_name, split1(3, |k| docs(k, |d| {
    let n = Name::of_len(1);
    append_only(|b| delete_by_name(d.bytes(), n.as_str(), b));
})));
harness!(c17_delete_by_keypath, split1(4, |k| docs(k, |d| {
    let n = Name::of_len(1);
    let first_idx: bool = kani::any();
    super::c06::index_arms(false, |i| {
        let (p, q) = (KeyPath::Index(i), KeyPath::Name(Cow::Borrowed(n.as_str())));
        let path = if first_idx { [&p, &q] } else { [&q, &p] };
        append_only(|b| delete_by_keypath(d.bytes(), path.iter().copied(), b));
    });
})));
harness!(c17_array_insert, split1(4, |k| docs(k, |d| {
    let nw = B::build(&arr(&[leaf(K_NUM, 2)]));
    super::c06::index_arms(false, |i| append_only(|b| array_insert(d.bytes(), i, nw.bytes(), b)));
})));
harness!(c17_object_insert, split1(3, |k| docs(k, |d| {
    let n = Name::of_len(1);
    let upd: bool = kani::any();
    let nw = B::build(&leaf(K_NUM, 9));
    append_only(|b| object_insert(d.bytes(), n.as_str(), nw.bytes(), upd, b));
})));
harness!(c17_object_delete_pick, split2(2, 2, |k, pick| docs(k + 1, |d| {
    let n = Name::of_len(1);
    let mut set = BTreeSet::new();
    set.insert(n.as_str());
    if pick == 1 { append_only(|b| object_pick(d.bytes(), &set, b)) } else { append_only(|b| object_delete(d.bytes(), &set, b)) }
    core::mem::forget(set);
})));
harness!(c17_concat, split2(3, 3, |i, j| docs(i, |a| docs(j, |c| append_only(|b| concat(a.bytes(), c.bytes(), b))))));
harness!(c17_strip_nulls, split1(4, |k| docs(k, |d| append_only(|b| strip_nulls(d.bytes(), b)))));
harness!(c17_build, split1(2, |k| docs(k, |d| docs(2, |e| {
    let parts: [&[u8]; 2] = [d.bytes(), e.bytes()];
    append_only(|b| build_array(parts.iter().copied(), b));
    let items: [(&str, &[u8]); 2] = [("a", d.bytes()), ("b", e.bytes())];
    append_only(|b| build_object(items.iter().copied(), b));
}))));
harness!(c17_sets, split2(2, 3, |i, which| docs(i * 2, |a| docs(0, |c| match which {
    0 => append_only(|b| array_distinct(a.bytes(), b)),
    1 => append_only(|b| array_intersection(a.bytes(), c.bytes(), b)),
    _ => append_only(|b| array_except(a.bytes(), c.bytes(), b)),
}))));
harness!(c17_comparable, split1(4, |k| docs(k, |d| append_only(|b| { convert_to_comparable(d.bytes(), b); Ok::<(), ()>(()) }))));

/// path selection into buffers that already hold data and offsets: the offsets reported are positions
/// in that same data buffer
fn select_append(d: &B, jp: JsonPath, mode: Mode, predicate_first: bool) {
    let sel = Selector::new(jp, mode);
    let mut fd = Vec::new();
    let mut fo = Vec::new();
    let r1 = sel.select(d.bytes(), &mut fd, &mut fo);
    assert!(r1.is_ok());
    let p: [u8; 2] = kani::any();
    let o0: u64 = kani::any();
    let mut data = Vec::new();
    let mut offs = Vec::new();
    let plen;
    if predicate_first {
        // an earlier call in the same batch with a predicate path: appends 8 bytes and no offset
        let e = Expr::BinaryOp { op: BinaryOperator::Eq, left: Box::new(Expr::Paths(vec![Path::Root])), right: Box::new(Expr::Value(Box::new(PathValue::Null))) };
        let psel = Selector::new(JsonPath { paths: vec![Path::Predicate(Box::new(e))] }, Mode::First);
        let r0 = psel.select(d.bytes(), &mut data, &mut offs);
        assert!(r0.is_ok() && data.len() == 8 && offs.is_empty(), "a predicate path appends one boolean document");
        core::mem::forget(psel);
        plen = 8;
    } else {
        data.push(p[0]);
        data.push(p[1]);
        offs.push(o0);
        plen = 2;
    }
    let nprior = offs.len();
    let r2 = sel.select(d.bytes(), &mut data, &mut offs);
    assert!(r2.is_ok());
    if !predicate_first {
        assert!(data[0] == p[0] && data[1] == p[1] && offs[0] == o0, "prior data and offsets are untouched");
    }
    assert!(data.len() == plen + fd.len() && offs.len() == nprior + fo.len(), "exactly the empty-buffer output is appended");
    let mut i = 0;
    while i < XCAP {
        if i < fd.len() {
            assert!(data[plen + i] == fd[i], "exactly the empty-buffer output is appended");
        }
        i += 1;
    }
    let mut k = 0;
    while k < 4 {
        if k < fo.len() {
            assert!(offs[nprior + k] == fo[k] + plen as u64, "reported offsets are positions in the caller's data buffer");
        }
        k += 1;
    }
    kani::cover!(fo.len() >= 2, "several items");
    core::mem::forget((sel, fd, fo, data, offs));
}
//@ props: C17
//@ timeout: 1800
//@ harness: c17_select_all, c17_select_first, c17_select_array, c17_select_after_predicate
//@ desc: Selector::select with `$[*]` / `$.*` into a data buffer that already holds two arbitrary bytes and an offsets vector that already holds an arbitrary entry (all-, first- and array-mode), and after an earlier predicate-path call in the same batch (which appends 8 bytes and no offset): prior content untouched, appended data identical to the empty-buffer output, offsets shifted by exactly the prior data length
//@ fns: Selector::select, Selector::build_values, Selector::build_scalar_array, Selector::build_predicate_result
//@ bounds: <= 3 items
//@ stubs: parse_value, from_slice -> panic | drop_in_place -> no-op
harness!(c17_select_all, split1(2, |k| docs(k, |d| select_append(d, JsonPath { paths: vec![Path::Root, if k == 0 { Path::BracketWildcard } else { Path::DotWildcard }] }, Mode::All, false))));
harness!(c17_select_first, docs(0, |d| select_append(d, JsonPath { paths: vec![Path::Root, Path::BracketWildcard] }, Mode::First, false)));
harness!(c17_select_array, docs(1, |d| select_append(d, JsonPath { paths: vec![Path::Root, Path::DotWildcard] }, Mode::Array, false)));
harness!(c17_select_after_predicate, split1(2, |k| docs(k, |d| select_append(d, JsonPath { paths: vec![Path::Root, if k == 0 { Path::BracketWildcard } else { Path::DotWildcard }] }, if k == 0 { Mode::All } else { Mode::Mixed }, true))));

//@ props: C17
//@ timeout: 300
//@ expect: twin
//@ desc: vacuity twin: strip_nulls into a prefilled buffer claimed to leave the length unchanged — must be refuted
//@ fns: strip_nulls
#[kani::proof]
#[kani::unwind(5)]
#[kani::stub(crate::parser::parse_value, no_parse_value)]
#[kani::stub(crate::de::from_slice, no_from_slice)]
#[kani::stub(std::ptr::drop_in_place, noop_drop)]
fn c17_twin_must_fail() {
    let d = B::build(&arr(&[leaf(K_NUM, 2)]));
    let mut buf = vec![1u8, 2];
    let _ = strip_nulls(d.bytes(), &mut buf);
    assert!(buf.len() == 2, "TWIN: deliberately false");
}
