//! C17 — functions that write into a caller's buffer only append to it.
use super::bdoc::*;
use super::common::*;
use crate::functions::*;
use crate::jsonpath::*;
use crate::keypath::KeyPath;
use std::borrow::Cow;
use std::collections::BTreeSet;

macro_rules! harness {
    ($name:ident, $body:expr) => {
        #[kani::proof]
        #[kani::unwind(1)]
        #[kani::stub(crate::parser::parse_value, no_parse_value)]
        #[kani::stub(crate::de::from_slice, no_from_slice)]
        #[kani::stub(std::ptr::drop_in_place, noop_drop)]
        #[kani::stub(crate::builder::ObjectBuilder::build_into, no_object_builder)]
        fn $name() {
            $body
        }
    };
}

macro_rules! harness_obj {
    ($name:ident, $body:expr) => {
        #[kani::proof]
        #[kani::unwind(1)]
        #[kani::stub(crate::parser::parse_value, no_parse_value)]
        #[kani::stub(crate::de::from_slice, no_from_slice)]
        #[kani::stub(std::ptr::drop_in_place, noop_drop)]
        fn $name() {
            $body
        }
    };
}

/// run `f` on an empty buffer and on a buffer holding a symbolic 2-byte prefix: the prefix must be
/// untouched and what follows must be exactly the empty-buffer output; on an error nothing is appended
fn append_only<E>(f: impl Fn(&mut Vec<u8>) -> Result<(), E>) {
    let mut fresh = Vec::new();
    let r1 = f(&mut fresh);
    let p: [u8; 2] = kani::any();
    let mut buf = Vec::new();
    buf.push(p[0]);
    buf.push(p[1]);
    let r2 = f(&mut buf);
    assert!(r1.is_ok() == r2.is_ok(), "same outcome with and without prior content");
    assert!(buf.len() >= 2 && buf[0] == p[0] && buf[1] == p[1], "prior buffer content is untouched");
    if r2.is_err() {
        assert!(buf.len() == 2 && fresh.is_empty(), "nothing is appended on an error");
    } else {
        assert!(buf.len() == 2 + fresh.len(), "exactly the empty-buffer output is appended");
        let mut i = 0;
        while i < XCAP {
            if i < fresh.len() {
                assert!(buf[2 + i] == fresh[i], "exactly the empty-buffer output is appended");
            }
            i += 1;
        }
    }
    kani::cover!(r2.is_ok() == r1.is_ok(), "both runs completed");
    core::mem::forget(fresh);
    core::mem::forget(buf);
}

fn docs(k: usize, f: impl Fn(&B)) {
    let n = leaf(K_NUM, 2);
    let s = leaf(K_STR, 1);
    match k {
        0 => f(&B::build(&arr(&[n, s]))),
        1 => f(&B::build(&n)),
        2 => f(&B::build(&arr(&[]))),
        3 => f(&B::build(&obj(&[1], &[leaf(K_NULL, 0)]))),
        _ => f(&B::build(&arr(&[leaf(K_STR, 2)]))),
    }
}
fn idx_arms(lo: i32, hi: i32, f: impl Fn(i32)) {
    let i: i32 = kani::any();
    kani::assume(i >= lo && i <= hi);
    let mut v = lo;
    while v <= hi {
        if i == v {
            f(v);
        }
        v += 1;
    }
}

//@ props: C17
//@ timeout: 1200
//@ harness: c17_delete_by_index, c17_delete_by_index_neg, c17_delete_by_index_oob, c17_delete_by_index_other, c17_array_insert, c17_array_insert_other, c17_concat, c17_concat_other, c17_strip_nulls, c17_build, c17_comparable, c17_delete_by_keypath, c17_errors
//@ desc: each buffer-writing function is run on an empty buffer and on a buffer that already holds two arbitrary bytes, on [n,s], [s2], scalar n, [] and {k:null}: delete_by_index (index 0, -1, and the out-of-range no-op copies 5 and -4) and array_insert (positions 1 and -1), concat (non-object pairs), strip_nulls, build_array/build_object, convert_to_comparable, delete_by_keypath ({i}), and the documented errors of the object editors: the prior bytes are untouched, what is appended is byte-identical to the empty-buffer output, and on an error nothing is appended
//@ fns: delete_by_index, array_insert, concat, strip_nulls, build_array, build_object, convert_to_comparable, delete_by_keypath, object_insert, object_delete, object_pick, delete_by_name, ArrayBuilder::build_into, reserve_jentries, replace_jentry
//@ bounds: documents <= 2 children; prefix 2 bytes
//@ stubs: parse_value, from_slice -> panic | drop_in_place -> no-op | ObjectBuilder::build_into -> panic in array-only instances
//@ outside: ObjectBuilder-based editors on non-empty objects, the array set functions and path selection (not reached by this technique, see DESIGN §0.5)
harness!(c17_delete_by_index, docs(0, |d| idx_arms(0, 0, |i| append_only(|b| delete_by_index(d.bytes(), i, b)))));
harness!(c17_delete_by_index_neg, docs(0, |d| idx_arms(-1, -1, |i| append_only(|b| delete_by_index(d.bytes(), i, b)))));
harness!(c17_delete_by_index_oob, split1(2, |k| docs(0, |d| idx_arms([5, -4][k], [5, -4][k], |i| append_only(|b| delete_by_index(d.bytes(), i, b))))));
harness_obj!(c17_delete_by_index_other, split1(2, |k| docs(1 + k, |d| idx_arms(0, 0, |i| append_only(|b| delete_by_index(d.bytes(), i, b))))));
harness!(c17_array_insert, docs(4, |d| {
    let nw = B::build(&arr(&[leaf(K_NUM, 2)]));
    idx_arms(1, 1, |i| append_only(|b| array_insert(d.bytes(), i, nw.bytes(), b)));
}));
harness_obj!(c17_array_insert_other, split1(2, |k| docs(1 + k, |d| {
    let nw = B::build(&leaf(K_NUM, 2));
    idx_arms(-1, -1, |i| append_only(|b| array_insert(d.bytes(), i, nw.bytes(), b)));
})));
harness!(c17_concat, docs(4, |a| docs(4, |c| append_only(|b| concat(a.bytes(), c.bytes(), b)))));
harness_obj!(c17_concat_other, split1(2, |k| docs(1 + k, |a| docs(2 - k, |c| append_only(|b| concat(a.bytes(), c.bytes(), b))))));
harness_obj!(c17_strip_nulls, split1(4, |k| docs(k, |d| append_only(|b| strip_nulls(d.bytes(), b)))));
harness_obj!(c17_build, split1(2, |k| docs(k, |d| docs(1, |e| {
    let parts: [&[u8]; 2] = [d.bytes(), e.bytes()];
    append_only(|b| build_array(parts.iter().copied(), b));
    let items: [(&str, &[u8]); 2] = [("a", d.bytes()), ("b", e.bytes())];
    append_only(|b| build_object(items.iter().copied(), b));
}))));
harness_obj!(c17_comparable, split1(4, |k| docs(k, |d| append_only(|b| { convert_to_comparable(d.bytes(), b); Ok::<(), ()>(()) }))));
harness!(c17_delete_by_keypath, split1(2, |k| docs(0, |d| idx_arms([1, 4][k], [1, 4][k], |i| {
    let p = KeyPath::Index(i);
    let path = [&p];
    append_only(|b| delete_by_keypath(d.bytes(), path.iter().copied(), b));
}))));
harness_obj!(c17_errors, split1(2, |k| docs(k, |d| {
    let n = Name::of_len(1);
    let nw = B::build(&leaf(K_TRUE, 0));
    append_only(|b| object_insert(d.bytes(), n.as_str(), nw.bytes(), true, b));
    let mut set = BTreeSet::new();
    set.insert(n.as_str());
    append_only(|b| object_delete(d.bytes(), &set, b));
    append_only(|b| object_pick(d.bytes(), &set, b));
    core::mem::forget(set);
    if k == 1 {
        append_only(|b| delete_by_name(d.bytes(), n.as_str(), b));
        append_only(|b| delete_by_index(d.bytes(), 0, b));
    }
})));

//@ props: C17
//@ timeout: 300
//@ expect: twin
//@ desc: vacuity twin: strip_nulls into a prefilled buffer claimed to leave the length unchanged — must be refuted
//@ fns: strip_nulls
#[kani::proof]
#[kani::unwind(1)]
#[kani::stub(crate::parser::parse_value, no_parse_value)]
#[kani::stub(crate::de::from_slice, no_from_slice)]
#[kani::stub(std::ptr::drop_in_place, noop_drop)]
fn c17_twin_must_fail() {
    let d = B::build(&arr(&[leaf(K_NUM, 2)]));
    let mut buf = vec![1u8, 2];
    let _ = strip_nulls(d.bytes(), &mut buf);
    let n = buf.len();
    core::mem::forget(buf);
    assert!(n == 2, "TWIN: deliberately false");
}
