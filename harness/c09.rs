//! C09 — JSONPath syntax: every documented form parses as intended; printing is faithful.
use super::common::*;
use crate::jsonpath::*;
use crate::number::Number;
use std::borrow::Cow;

macro_rules! harness {
    ($name:ident, $unw:expr, $body:expr) => {
        #[kani::proof]
        #[kani::unwind(5)]
        #[kani::stub(std::ptr::drop_in_place, noop_drop)]
        fn $name() {
            $body
        }
    };
}

struct W {
    b: [u8; 64],
    n: usize,
}
impl W {
    fn new() -> W {
        W { b: [0; 64], n: 0 }
    }
    fn put(&mut self, c: u8) {
        self.b[self.n] = c;
        self.n += 1;
    }
    fn s(&mut self, t: &[u8]) {
        let mut i = 0;
        while i < t.len() {
            self.put(t[i]);
            i += 1;
        }
    }
    /// whitespace slot: present (one arbitrary whitespace character) or absent
    fn sp(&mut self, on: bool) {
        if on {
            let c: u8 = kani::any();
            kani::assume(c == b' ' || c == b'\t' || c == b'\n' || c == b'\r');
            self.put(c);
        }
    }
    /// keyword with arbitrary letter case (bit i of `caps` upper-cases letter i)
    fn kw(&mut self, t: &[u8], caps: u8) {
        let mut i = 0;
        while i < t.len() {
            self.put(if caps & (1 << i) != 0 { t[i] - 32 } else { t[i] });
            i += 1;
        }
    }
    fn bytes(&self) -> &[u8] {
        &self.b[..self.n]
    }
}
fn name_char(c: u8) -> bool {
    c > 0x20 && c < 0x7f && !matches!(c, b',' | b'.' | b':' | b'{' | b'}' | b'[' | b']' | b'(' | b')' | b'?' | b'@' | b'$' | b'|' | b'<' | b'>' | b'!' | b'=' | b'+' | b'-' | b'*' | b'/' | b'%' | b'"' | b'\'' | b'\\')
}
fn expect(w: &W, want: JsonPath) {
    let r = parse_json_path(w.bytes());
    assert!(r.is_ok(), "a documented form with any legal spacing, keyword case and quoting is accepted");
    let got = r.unwrap();
    assert!(got == want, "and yields the intended structure");
    core::mem::forget(got);
    core::mem::forget(want);
}
fn over_bits(nbits: u32, f: impl Fn(u8)) {
    let s: u8 = kani::any();
    kani::assume((s as u32) < (1u32 << nbits));
    let mut k = 0u8;
    while (k as u32) < (1u32 << nbits) {
        if s == k {
            f(k);
        }
        k += 1;
    }
}

/// `$ <field form> [ idx ]` with name of two arbitrary characters, index of two arbitrary digits
fn steps(form: usize) {
    let (c1, c2): (u8, u8) = (kani::any(), kani::any());
    kani::assume(name_char(c1) && name_char(c2));
    let (d1, d2): (u8, u8) = (kani::any(), kani::any());
    kani::assume(d1 >= b'0' && d1 <= b'9' && d2 >= b'0' && d2 <= b'9');
    let neg: bool = kani::any();
    let v = ((d1 - b'0') as i32 * 10 + (d2 - b'0') as i32) * if neg { -1 } else { 1 };
    let nm = [c1, c2];
    let name = unsafe { core::str::from_utf8_unchecked(&nm) };
    over_bits(4, |s| {
        let mut w = W::new();
        w.sp(s & 1 != 0);
        w.put(b'$');
        w.sp(s & 2 != 0);
        let field = match form {
            0 => { w.put(b'.'); w.s(&nm); Path::DotField(Cow::Borrowed(name)) }
            1 => { w.put(b':'); w.s(&nm); Path::ColonField(Cow::Borrowed(name)) }
            2 => { w.put(b'.'); w.put(b'"'); w.s(&nm); w.put(b'"'); Path::DotField(Cow::Borrowed(name)) }
            3 => { w.put(b':'); w.put(b'"'); w.s(&nm); w.put(b'"'); Path::ColonField(Cow::Borrowed(name)) }
            _ => { w.put(b'['); w.sp(s & 1 != 0); w.put(b'"'); w.s(&nm); w.put(b'"'); w.sp(s & 2 != 0); w.put(b']'); Path::ObjectField(Cow::Borrowed(name)) }
        };
        w.sp(s & 4 != 0);
        w.put(b'[');
        w.sp(s & 8 != 0);
        if neg { w.put(b'-'); }
        w.put(d1);
        w.put(d2);
        w.sp(s & 4 != 0);
        w.put(b']');
        w.sp(s & 8 != 0);
        expect(&w, JsonPath { paths: vec![Path::Root, field, Path::ArrayIndices(vec![ArrayIndex::Index(Index::Index(v))])] });
    });
}
//@ props: UNREACHED-C09
//@ timeout: 1800
//@ harness: c09_steps_dot, c09_steps_colon, c09_steps_dotq, c09_steps_colonq, c09_steps_bracket
//@ desc: `$ <member step> [ i ]` with the member step written as `.name`, `:name`, `."name"`, `:"name"` and `["name"]` (two arbitrary name characters), the index two arbitrary digits with optional minus, and every presence pattern of four whitespace slots (each empty or one arbitrary whitespace character): accepted, steps in order, DotField/ColonField/ObjectField and Index(value)
//@ fns: parse_json_path, json_path, predicate_or_paths, paths, pre_path, path, inner_path, dot_field, colon_field, object_field, array_indices, array_index, index, string, raw_string
//@ bounds: 2-character names, 2-digit indices
//@ stubs: drop_in_place -> no-op
harness!(c09_steps_dot, 70, steps(0));
harness!(c09_steps_colon, 70, steps(1));
harness!(c09_steps_dotq, 70, steps(2));
harness!(c09_steps_colonq, 70, steps(3));
harness!(c09_steps_bracket, 70, steps(4));

/// index forms: last, last-k, last+k, a to b, lists; keyword case free
fn indices(form: usize) {
    let d: u8 = kani::any();
    kani::assume(d >= b'0' && d <= b'9');
    let k = (d - b'0') as i32;
    let caps: u8 = kani::any();
    kani::assume(caps < 16);
    over_bits(3, |s| {
        let mut w = W::new();
        w.s(b"$[");
        w.sp(s & 1 != 0);
        let want = match form {
            0 => { w.kw(b"last", caps); vec![ArrayIndex::Index(Index::LastIndex(0))] }
            1 => { w.kw(b"last", caps); w.sp(s & 2 != 0); w.put(b'-'); w.sp(s & 4 != 0); w.put(d); vec![ArrayIndex::Index(Index::LastIndex(-k))] }
            2 => { w.kw(b"last", caps); w.sp(s & 2 != 0); w.put(b'+'); w.sp(s & 4 != 0); w.put(d); vec![ArrayIndex::Index(Index::LastIndex(k))] }
            3 => { w.put(d); w.sp(s & 2 != 0); w.kw(b"to", caps & 3); w.sp(s & 4 != 0); w.kw(b"last", caps); vec![ArrayIndex::Slice((Index::Index(k), Index::LastIndex(0)))] }
            _ => { w.put(d); w.sp(s & 2 != 0); w.put(b','); w.sp(s & 4 != 0); w.kw(b"last", caps); w.put(b'-'); w.put(b'1'); vec![ArrayIndex::Index(Index::Index(k)), ArrayIndex::Index(Index::LastIndex(-1))] }
        };
        w.sp(s & 1 != 0);
        w.put(b']');
        expect(&w, JsonPath { paths: vec![Path::Root, Path::ArrayIndices(want)] });
    });
}
//@ props: UNREACHED-C09
//@ timeout: 1800
//@ harness: c09_index_last, c09_index_last_minus, c09_index_last_plus, c09_index_range, c09_index_list
//@ desc: `$[last]`, `$[last - k]`, `$[last + k]`, `$[k to last]`, `$[k, last-1]` with `last` and `to` in every letter case, an arbitrary digit k and every presence pattern of three whitespace slots: accepted as LastIndex(0) / LastIndex(-k) / LastIndex(k) / Slice(Index(k), LastIndex(0)) / [Index(k), LastIndex(-1)]
//@ fns: parse_json_path, array_indices, array_index, index
//@ bounds: single-digit offsets
//@ stubs: drop_in_place -> no-op
harness!(c09_index_last, 70, indices(0));
harness!(c09_index_last_minus, 70, indices(1));
harness!(c09_index_last_plus, 70, indices(2));
harness!(c09_index_range, 70, indices(3));
harness!(c09_index_list, 70, indices(4));

fn num(n: Number) -> Box<Expr<'static>> {
    Box::new(Expr::Value(Box::new(PathValue::Number(n))))
}
fn at_field(n: &'static str) -> Box<Expr<'static>> {
    Box::new(Expr::Paths(vec![Path::Current, Path::DotField(Cow::Borrowed(n))]))
}
fn bin(op: BinaryOperator, l: Box<Expr<'static>>, r: Box<Expr<'static>>) -> Expr<'static> {
    Expr::BinaryOp { op, left: l, right: r }
}
/// `$[*]?(@.a OP lit)`: every operator spelling and every literal kind
fn filters(lit: usize) {
    let opk: usize = kani::any();
    kani::assume(opk < 7);
    let mut o = 0;
    while o < 7 {
        if opk == o {
            over_bits(3, |s| {
                let mut w = W::new();
                w.s(b"$[*]");
                w.sp(s & 1 != 0);
                w.put(b'?');
                w.sp(s & 2 != 0);
                w.put(b'(');
                w.sp(s & 4 != 0);
                w.s(b"@.a");
                w.sp(s & 1 != 0);
                let (txt, op): (&[u8], BinaryOperator) = match o {
                    0 => (b"==", BinaryOperator::Eq),
                    1 => (b"!=", BinaryOperator::NotEq),
                    2 => (b"<>", BinaryOperator::NotEq),
                    3 => (b"<", BinaryOperator::Lt),
                    4 => (b"<=", BinaryOperator::Lte),
                    5 => (b">", BinaryOperator::Gt),
                    _ => (b">=", BinaryOperator::Gte),
                };
                w.s(txt);
                w.sp(s & 2 != 0);
                let rhs: Box<Expr<'static>> = match lit {
                    0 => { w.s(b"10"); num(Number::UInt64(10)) }
                    1 => { w.s(b"-3"); num(Number::Int64(-3)) }
                    2 => { w.s(b"1.5"); num(Number::Float64(1.5)) }
                    3 => { w.s(b"-2.5e3"); num(Number::Float64(-2500.0)) }
                    4 => { w.s(b"1e3"); num(Number::Float64(1000.0)) }
                    5 => { w.s(b"\"ab\""); Box::new(Expr::Value(Box::new(PathValue::String(Cow::Borrowed("ab"))))) }
                    6 => { w.s(b"\"\""); Box::new(Expr::Value(Box::new(PathValue::String(Cow::Borrowed(""))))) }
                    7 => { w.s(b"true"); Box::new(Expr::Value(Box::new(PathValue::Boolean(true)))) }
                    8 => { w.s(b"false"); Box::new(Expr::Value(Box::new(PathValue::Boolean(false)))) }
                    _ => { w.s(b"null"); Box::new(Expr::Value(Box::new(PathValue::Null))) }
                };
                w.sp(s & 4 != 0);
                w.put(b')');
                let e = bin(op, at_field("a"), rhs);
                expect(&w, JsonPath { paths: vec![Path::Root, Path::BracketWildcard, Path::FilterExpr(Box::new(e))] });
            });
        }
        o += 1;
    }
}
//@ props: UNREACHED-C09
//@ timeout: 1800
//@ harness: c09_filter_uint, c09_filter_negint, c09_filter_frac, c09_filter_negexp, c09_filter_exp, c09_filter_str, c09_filter_emptystr, c09_filter_true, c09_filter_false, c09_filter_null
//@ desc: `$[*] ?( @.a OP lit )` for the seven operator spellings (==, !=, <>, <, <=, >, >=), three whitespace slots, and literals 10, -3, 1.5, -2.5e3, 1e3, "ab", "" (empty string), true, false, null: accepted with the intended operator and a literal of the right kind and value (UInt64 / Int64 / Float64 / String / Boolean / Null)
//@ fns: parse_json_path, path, filter_expr, expr_or, expr_and, expr_atom, inner_expr, expr_paths, op, path_value, number, string
//@ bounds: listed literals
//@ stubs: drop_in_place -> no-op
harness!(c09_filter_uint, 70, filters(0));
harness!(c09_filter_negint, 70, filters(1));
harness!(c09_filter_frac, 70, filters(2));
harness!(c09_filter_negexp, 70, filters(3));
harness!(c09_filter_exp, 70, filters(4));
harness!(c09_filter_str, 70, filters(5));
harness!(c09_filter_emptystr, 70, filters(6));
harness!(c09_filter_true, 70, filters(7));
harness!(c09_filter_false, 70, filters(8));
harness!(c09_filter_null, 70, filters(9));

fn cmp1(f: &'static str, v: u64) -> Box<Expr<'static>> {
    Box::new(bin(BinaryOperator::Eq, at_field(f), num(Number::UInt64(v))))
}
//@ props: UNREACHED-C09
//@ timeout: 1800
//@ desc: operator precedence and grouping, and printing: `$?(@.a == 1 || @.b == 2 && @.c == 3)` is Or(a, And(b, c)); `$?((@.a == 1 || @.b == 2) && @.c == 3)` is And(Or(a, b), c); `$?(@.a == 1 && (@.b == 2 && @.c == 3))` keeps the explicit right grouping; `exists(@.a)`, the stand-alone predicate `$.a > 1`, `$.*` and `$[ * ]`; each accepted path is printed and the printout parses back to the same structure
//@ fns: parse_json_path, expr_or, expr_and, expr_atom, exists, predicate, JsonPath::fmt (Display), Expr::fmt, Path::fmt
//@ bounds: listed expressions
//@ stubs: drop_in_place -> no-op
#[kani::proof]
#[kani::unwind(5)]
#[kani::stub(std::ptr::drop_in_place, noop_drop)]
fn c09_precedence_and_print() {
    let k: usize = kani::any();
    kani::assume(k < 7);
    let mut i = 0;
    while i < 7 {
        if k == i {
            let (txt, want): (&[u8], JsonPath) = match i {
                0 => (b"$?(@.a == 1 || @.b == 2 && @.c == 3)", JsonPath { paths: vec![Path::Root, Path::FilterExpr(Box::new(bin(BinaryOperator::Or, cmp1("a", 1), Box::new(bin(BinaryOperator::And, cmp1("b", 2), cmp1("c", 3))))))] }),
                1 => (b"$?((@.a == 1 || @.b == 2) && @.c == 3)", JsonPath { paths: vec![Path::Root, Path::FilterExpr(Box::new(bin(BinaryOperator::And, Box::new(bin(BinaryOperator::Or, cmp1("a", 1), cmp1("b", 2))), cmp1("c", 3))))] }),
                2 => (b"$?(@.a == 1 && (@.b == 2 && @.c == 3))", JsonPath { paths: vec![Path::Root, Path::FilterExpr(Box::new(bin(BinaryOperator::And, cmp1("a", 1), Box::new(bin(BinaryOperator::And, cmp1("b", 2), cmp1("c", 3))))))] }),
                3 => (b"$[*]?(exists(@.a))", JsonPath { paths: vec![Path::Root, Path::BracketWildcard, Path::FilterExpr(Box::new(Expr::FilterFunc(FilterFunc::Exists(vec![Path::Current, Path::DotField(Cow::Borrowed("a"))]))))] }),
                4 => (b"$.a > 1", JsonPath { paths: vec![Path::Predicate(Box::new(bin(BinaryOperator::Gt, Box::new(Expr::Paths(vec![Path::Root, Path::DotField(Cow::Borrowed("a"))])), num(Number::UInt64(1)))))] }),
                5 => (b"$.*", JsonPath { paths: vec![Path::Root, Path::DotWildcard] }),
                _ => (b"$[ * ]", JsonPath { paths: vec![Path::Root, Path::BracketWildcard] }),
            };
            let r = parse_json_path(txt);
            assert!(r.is_ok(), "documented form accepted");
            let got = r.unwrap();
            assert!(got == want, "`&&` binds tighter than `||`; parentheses group; functions and predicates as intended");
            // printing is faithful: parse(print(p)) == p
            let printed = format!("{}", got);
            let again = parse_json_path(printed.as_bytes());
            assert!(again.is_ok() && again.as_ref().unwrap() == &want, "printing an accepted path and parsing the printout gives back the same structure");
            core::mem::forget((got, want, again));
            core::mem::forget(printed);
        }
        i += 1;
    }
}

fn total<const N: usize>() {
    let buf: [u8; N] = kani::any();
    let len: usize = kani::any();
    kani::assume(len <= N);
    let mut l = 0;
    while l <= N {
        if len == l {
            let r = parse_json_path(&buf[..l]);
            kani::cover!(r.is_ok(), "accepted");
            kani::cover!(r.is_err(), "rejected");
            core::mem::forget(r);
        }
        l += 1;
    }
}
//@ props: UNREACHED-C09
//@ timeout: 1800
//@ harness: c09_total_3
//@ desc: parse_json_path on every byte string of length 0..=3: a path or Err(InvalidJsonPath), never a panic
//@ fns: parse_json_path, json_path, predicate_or_paths, predicate, paths
//@ bounds: input length <= 3
//@ stubs: drop_in_place -> no-op
harness!(c09_total_3, 10, total::<3>());
//@ props: UNREACHED-C09
//@ tier: thorough
//@ timeout: 7200
//@ harness: c09_total_5
//@ desc: parse_json_path on every byte string of length 0..=5: never a panic
//@ fns: parse_json_path
//@ bounds: input length <= 5
//@ stubs: drop_in_place -> no-op
harness!(c09_total_5, 12, total::<5>());

/// fixed opening ending in a started escape, tail of every length 0..=N
fn open_escape_tail<const N: usize>(prefix: &[u8], keypath: bool) {
    let tail: [u8; N] = kani::any();
    let len: usize = kani::any();
    kani::assume(len <= N);
    let mut l = 0;
    while l <= N {
        if len == l {
            let mut w = W::new();
            w.s(prefix);
            w.s(&tail[..l]);
            if keypath {
                let r = crate::keypath::parse_key_paths(w.bytes());
                kani::cover!(r.is_err(), "rejected");
                core::mem::forget(r);
            } else {
                let r = parse_json_path(w.bytes());
                kani::cover!(r.is_err(), "rejected");
                core::mem::forget(r);
            }
        }
        l += 1;
    }
}
//@ props: UNREACHED-C09, UNREACHED-C16
//@ timeout: 1800
//@ harness: c09_cut_u, c09_cut_ubrace, c09_cut_quoted_u, c16_cut_u, c16_cut_ubrace
//@ desc: escapes cut off at every point: `$.a\\u`, `$.a\\u{`, `$."\\u` (JSONPath) and `{a\\u`, `{a\\u{` (key path) followed by every tail of 0..=5 arbitrary bytes (so the input may end one hex digit short, without the closing brace, or with non-hex digits): an error or a value, never a panic
//@ fns: parse_json_path, parse_key_paths, raw_string, string, check_escaped, parse_string, parse_escaped_string, decode_hex_escape
//@ bounds: tails <= 5 bytes
//@ stubs: drop_in_place -> no-op
harness!(c09_cut_u, 16, open_escape_tail::<5>(b"$.a\\u", false));
harness!(c09_cut_ubrace, 16, open_escape_tail::<5>(b"$.a\\u{", false));
harness!(c09_cut_quoted_u, 16, open_escape_tail::<5>(b"$.\"\\u", false));
harness!(c16_cut_u, 16, open_escape_tail::<5>(b"{a\\u", true));
harness!(c16_cut_ubrace, 16, open_escape_tail::<5>(b"{a\\u{", true));

/// fixed opening, arbitrary tail: unterminated quotes and cut-off escapes inside names and literals
fn open_tail(which: usize) {
    let tail: [u8; 4] = kani::any();
    let mut w = W::new();
    match which {
        0 => w.s(b"$.\""),
        1 => w.s(b"$[\""),
        2 => w.s(b"$?(@==\""),
        _ => w.s(b"$.a\\"),
    }
    w.s(&tail);
    let r = parse_json_path(w.bytes());
    kani::cover!(r.is_ok(), "accepted");
    kani::cover!(r.is_err(), "rejected");
    core::mem::forget(r);
}
//@ props: UNREACHED-C09
//@ timeout: 1800
//@ harness: c09_open_dotq, c09_open_brq, c09_open_lit, c09_open_escape
//@ desc: `$."`, `$["`, `$?(@=="` and `$.a\\` each followed by four arbitrary bytes (unterminated quotes, escapes cut off at every point, `\\u` with too few digits, `\\u{` without closing brace): an error or a path, never a panic
//@ fns: parse_json_path, string, raw_string, check_escaped, parse_string, parse_escaped_string
//@ bounds: 4 symbolic bytes after the fixed opening
//@ stubs: drop_in_place -> no-op
harness!(c09_open_dotq, 16, open_tail(0));
harness!(c09_open_brq, 16, open_tail(1));
harness!(c09_open_lit, 16, open_tail(2));
harness!(c09_open_escape, 16, open_tail(3));

//@ props: UNREACHED-C09
//@ timeout: 300
//@ expect: twin
//@ desc: vacuity twin: every 2-byte input claimed to be rejected — must be refuted
//@ fns: parse_json_path
#[kani::proof]
#[kani::unwind(5)]
#[kani::stub(std::ptr::drop_in_place, noop_drop)]
fn c09_twin_must_fail() {
    let buf: [u8; 2] = kani::any();
    let r = parse_json_path(&buf);
    let bad = r.is_err();
    core::mem::forget(r);
    assert!(bad, "TWIN: deliberately false");
}
