//! C03 — rendering JSONB as text yields valid JSON that denotes the same document.
use super::bdoc::*;
use super::common::*;
use crate::functions::{to_pretty_string, to_string};
use crate::number::Number;

macro_rules! harness {
    ($name:ident, $body:expr) => {
        #[kani::proof]
        #[kani::unwind(3)]
        #[kani::stub(crate::parser::parse_value, no_parse_value)]
        #[kani::stub(std::ptr::drop_in_place, noop_drop)]
        #[kani::stub(std::string::String::from_utf8_lossy, from_utf8_lossy_model)]
        fn $name() {
            $body
        }
    };
}

/// Independent strict RFC 8259 reader, guided by the descriptor: it accepts only well-formed JSON
/// text (strict string grammar: no raw control characters, only the nine defined escapes; strict
/// number grammar) and checks that what it reads denotes exactly the descriptor's node.
struct R<'a> {
    t: &'a [u8],
    p: usize,
    ok: bool,
    pretty: bool,
}
impl<'a> R<'a> {
    fn peek(&self) -> u8 {
        if self.p < self.t.len() { self.t[self.p] } else { 0xFF }
    }
    fn eat(&mut self, c: u8) {
        if self.peek() == c {
            self.p += 1;
        } else {
            self.ok = false;
        }
    }
    fn lit(&mut self, s: &[u8]) {
        let mut i = 0;
        while i < s.len() {
            self.eat(s[i]);
            i += 1;
        }
    }
    fn hex(&mut self) -> u32 {
        let c = self.peek();
        self.p += 1;
        if c >= b'0' && c <= b'9' { (c - b'0') as u32 } else if c >= b'a' && c <= b'f' { (c - b'a' + 10) as u32 } else if c >= b'A' && c <= b'F' { (c - b'A' + 10) as u32 } else { self.ok = false; 0 }
    }
    /// JSON string whose decoded bytes must equal want[..n]
    fn string(&mut self, d: &B, off: usize, n: usize) {
        self.eat(b'"');
        let mut k = 0; // decoded bytes matched so far
        // at most n decoded bytes, each from one raw byte or one escape
        let mut step = 0;
        while step < n {
            let c = self.peek();
            if c == b'\\' {
                self.p += 1;
                let e = self.peek();
                self.p += 1;
                let dec: u32 = match e {
                    b'"' => 0x22, b'\\' => 0x5C, b'/' => 0x2F, b'b' => 0x08, b'f' => 0x0C, b'n' => 0x0A, b'r' => 0x0D, b't' => 0x09,
                    b'u' => { let a = self.hex(); let b = self.hex(); let c2 = self.hex(); let d2 = self.hex(); (a << 12) | (b << 8) | (c2 << 4) | d2 }
                    _ => { self.ok = false; 0 }
                };
                // only code points below 0x80 are ever escaped by a JSON writer for these payloads
                if dec >= 0x80 || d.b[off + k] != dec as u8 {
                    self.ok = false;
                }
            } else {
                // raw character: must not be a control character, a quote or a backslash
                if c < 0x20 || c == b'"' || c == 0xFF && self.p >= self.t.len() {
                    self.ok = false;
                }
                if d.b[off + k] != c {
                    self.ok = false;
                }
                self.p += 1;
            }
            k += 1;
            step += 1;
        }
        self.eat(b'"');
    }
    /// JSON integer token whose value must equal v
    fn integer(&mut self, v: i128) {
        let neg = self.peek() == b'-';
        if neg {
            self.p += 1;
        }
        let first = self.peek();
        if !(first >= b'0' && first <= b'9') {
            self.ok = false;
        }
        let mut acc: i128 = 0;
        let mut digits = 0;
        let mut i = 0;
        while i < 20 {
            let c = self.peek();
            if c >= b'0' && c <= b'9' {
                if digits == 1 && first == b'0' {
                    self.ok = false; // leading zero
                }
                acc = acc * 10 + (c - b'0') as i128;
                digits += 1;
                self.p += 1;
            }
            i += 1;
        }
        let c = self.peek();
        if c == b'.' || c == b'e' || c == b'E' || (c >= b'0' && c <= b'9') {
            self.ok = false; // an integer is rendered without fraction or exponent
        }
        if (if neg { -acc } else { acc }) != v || (neg && acc == 0) {
            self.ok = false;
        }
    }
    fn newline_indent(&mut self, depth: usize) {
        if self.pretty {
            self.eat(b'\n');
            let mut i = 0;
            while i < 2 * depth {
                self.eat(b' ');
                i += 1;
            }
        }
    }
    fn node(&mut self, d: &B, id: usize, depth: usize) {
        let x = d.node(id);
        match x.kind {
            K_NULL => self.lit(b"null"),
            K_TRUE => self.lit(b"true"),
            K_FALSE => self.lit(b"false"),
            K_STR => self.string(d, x.off, x.len),
            K_NUM => self.integer(int_of(&d.num(&x))),
            _ => {
                let (open, close) = if x.kind == K_ARR { (b'[', b']') } else { (b'{', b'}') };
                self.eat(open);
                let mut i = 0;
                while i < x.cnt {
                    if i > 0 {
                        self.eat(b',');
                    }
                    self.newline_indent(depth + 1);
                    if x.kind == K_OBJ {
                        self.string(d, x.koff[i], x.klen[i]);
                        self.eat(b':');
                        if self.pretty {
                            self.eat(b' ');
                        }
                    }
                    self.node(d, x.kids[i], depth + 1);
                    i += 1;
                }
                // empty containers are rendered as "[\n]" / "{\n}" by the pretty printer: insignificant whitespace
                self.newline_indent(depth);
                self.eat(close);
            }
        }
    }
}

fn integers_only(d: &B) -> bool {
    let mut ok = true;
    let mut i = 0;
    while i < d.nn {
        let x = d.node(i);
        if x.kind == K_NUM && matches!(d.num(&x), Number::Float64(_)) {
            ok = false;
        }
        i += 1;
    }
    ok
}

fn render(d: &B) {
    kani::assume(integers_only(d));
    let s = to_string(d.bytes());
    let mut r = R { t: s.as_bytes(), p: 0, ok: true, pretty: false };
    r.node(d, d.root, 0);
    assert!(r.ok && r.p == s.len(), "the compact rendering is well-formed RFC 8259 JSON denoting the original document");
    let ps = to_pretty_string(d.bytes());
    let mut q = R { t: ps.as_bytes(), p: 0, ok: true, pretty: true };
    q.node(d, d.root, 0);
    assert!(q.ok && q.p == ps.len(), "the pretty rendering is the same JSON with two-space indentation and one member per line");
    core::mem::forget(s);
    core::mem::forget(ps);
}

//@ props: UNREACHED-C03
//@ timeout: 1800
//@ harness: c03_string_1, c03_string_2
//@ desc: scalar string documents with every well-formed UTF-8 payload of 1 and 2 bytes (all control characters, quote, backslash, DEL, 2-byte characters; 3-byte characters such as U+2028 in the thorough tier): to_string and to_pretty_string are accepted by an independent strict RFC 8259 string reader (no raw control characters, only defined escapes) and decode to the original bytes
//@ fns: to_string, to_pretty_string, container_to_string, scalar_to_string, escape_scalar_string
//@ bounds: strings <= 3 bytes
//@ stubs: parse_value -> panic | drop_in_place -> no-op | String::from_utf8_lossy -> model for well-formed input (asserts well-formedness)
//@ outside: floats (ryu shortest round-trip) | 4-byte (astral) characters in quick tier | re-parsing the text with parse_value (C02's subject)
harness!(c03_string_1, render(&B::build(&leaf(K_STR, 1))));
harness!(c03_string_2, render(&B::build(&leaf(K_STR, 2))));


//@ props: UNREACHED-C03
//@ timeout: 1800
//@ harness: c03_shapes_a, c03_shapes_b, c03_shapes_c, c03_shapes_d
//@ desc: [null,true,s1], {k:s1,kk:false}, [[s1],{k:null}], [], {}, [{},[]] with symbolic strings and keys: compact and pretty renderings read back, by the strict reader, as exactly the descriptor (structure, separators, key order, escapes in values and in keys); pretty = compact plus newline and two-space indentation per depth, one member per line, `": "` after keys
//@ fns: to_string, to_pretty_string, container_to_string, scalar_to_string, escape_scalar_string, PrettyOpts::generate_indent
//@ bounds: depth 2, <= 3 children, strings/keys <= 2 bytes
//@ stubs: parse_value -> panic | drop_in_place -> no-op | String::from_utf8_lossy -> model for well-formed input (asserts well-formedness)
harness!(c03_shapes_a, render(&B::build(&arr(&[leaf(K_NULL, 0), leaf(K_TRUE, 0), leaf(K_STR, 1)]))));
harness!(c03_shapes_b, render(&B::build(&obj(&[1, 2], &[leaf(K_STR, 1), leaf(K_FALSE, 0)]))));
harness!(c03_shapes_c, render(&B::build(&arr(&[arr(&[leaf(K_STR, 1)]), obj(&[1], &[leaf(K_NULL, 0)])]))));
harness!(c03_shapes_d, split1(3, |k| match k {
    0 => render(&B::build(&arr(&[]))),
    1 => render(&B::build(&obj(&[], &[]))),
    _ => render(&B::build(&arr(&[obj(&[], &[]), arr(&[])]))),
}));

//@ props: UNREACHED-C03
//@ timeout: 1800
//@ harness: c03_int_1, c03_int_2, c03_int_3
//@ desc: integer documents of encoded widths 1, 2 and 3 (zero, all i8/u8 and all i16/u16 values, signed and unsigned representation): the rendering is a strict JSON integer token with exactly that value (no leading zeros, no fraction, minus only for negatives), scalar and inside [n,s1]
//@ fns: to_string, scalar_to_string, Number::fmt (Display), itoa::Buffer::format
//@ bounds: |value| < 2^16 in the quick tier
//@ stubs: parse_value -> panic | drop_in_place -> no-op | String::from_utf8_lossy -> model for well-formed input (asserts well-formedness)
harness!(c03_int_1, render(&B::build(&leaf(K_NUM, 1))));
harness!(c03_int_2, render(&B::build(&arr(&[leaf(K_NUM, 2), leaf(K_STR, 1)]))));
harness!(c03_int_3, render(&B::build(&leaf(K_NUM, 3))));

//@ props: UNREACHED-C03
//@ tier: thorough
//@ timeout: 7200
//@ harness: c03_string_3
//@ desc: scalar string documents with every well-formed UTF-8 payload of 3 bytes (incl. U+2028/U+2029 and a control character followed by a 2-byte character)
//@ fns: to_string, escape_scalar_string
//@ bounds: 3 bytes
//@ stubs: parse_value -> panic | drop_in_place -> no-op | String::from_utf8_lossy -> model
harness!(c03_string_3, render(&B::build(&leaf(K_STR, 3))));

//@ props: UNREACHED-C03
//@ tier: thorough
//@ timeout: 7200
//@ harness: c03_int_5, c03_int_9
//@ desc: integer documents of encoded widths 5 and 9: every i32/u32 and every i64/u64 value renders as the strict JSON integer token with exactly that value (u64 above i64::MAX included)
//@ fns: to_string, Number::fmt (Display), itoa::Buffer::format
//@ bounds: full 64-bit
//@ stubs: parse_value -> panic | drop_in_place -> no-op | String::from_utf8_lossy -> model for well-formed input (asserts well-formedness)
harness!(c03_int_5, render(&B::build(&leaf(K_NUM, 5))));
harness!(c03_int_9, render(&B::build(&leaf(K_NUM, 9))));

//@ props: UNREACHED-C03
//@ timeout: 300
//@ expect: twin
//@ desc: vacuity twin: rendering of a 1-byte string claimed never to contain a backslash — must be refuted
//@ fns: to_string
#[kani::proof]
#[kani::unwind(3)]
#[kani::stub(crate::parser::parse_value, no_parse_value)]
#[kani::stub(std::ptr::drop_in_place, noop_drop)]
fn c03_twin_must_fail() {
    let d = B::build(&leaf(K_STR, 1));
    let s = to_string(d.bytes());
    let n = s.len();
    core::mem::forget(s);
    assert!(n == 3, "TWIN: deliberately false");
}
